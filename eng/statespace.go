package eng

import (
	"fmt"
	"strings"
	"sync"
	"time"

	"verif/drv"
	"verif/ev"
	"verif/m"
	"verif/vstore"
)

// SSConfig configures the explicit-state search over the real database.
type SSConfig struct {
	Name      string
	Backend   string
	Twin      string // optional second backend driven in lock-step
	Init      []m.Op
	Alphabet  []m.Op
	MaxDepth  int
	MaxStates int           // stop expanding when this many states are known (0 = unlimited)
	Budget    time.Duration // stop expanding after this much wall time (0 = unlimited)
	Audit     drv.AuditOpts
	Raw       bool   // compare the raw key space with the canonical rebuild in every new state
	Derived   []*m.Q // derived-operation battery per new state
	Reopen    bool   // every new state is also checked after close/reopen of the primary backend
	Own       map[string]bool
}

type ssState struct {
	snap, twinSnap []vstore.KV
	model          *m.DB
	path           []m.Op
	depth          int
	gen            bool // reached through an operation that generated random ids: backends cannot be compared on it
}

type ssWorker struct {
	in, twin, scratch *drv.Inst
}

// StateSpace runs a breadth-first search: successor = restore the state's raw content into a real instance,
// apply one operation of the alphabet to the implementation and to the reference model, compare, audit.
func StateSpace(cfg *SSConfig, run *ev.Run) {
	start := time.Now()
	workers := map[int]*ssWorker{}
	var wmu sync.Mutex
	getW := func(w int) *ssWorker {
		wmu.Lock()
		defer wmu.Unlock()
		if workers[w] == nil {
			sw := &ssWorker{in: drv.MustOpen(cfg.Backend), scratch: drv.MustOpen(cfg.Backend)}
			if cfg.Twin != "" {
				sw.twin = drv.MustOpen(cfg.Twin)
			}
			workers[w] = sw
		}
		return workers[w]
	}
	defer func() {
		for _, w := range workers {
			w.in.Close()
			w.scratch.Close()
			if w.twin != nil {
				w.twin.Close()
			}
		}
	}()

	report := func(f Finding, path []m.Op, extra string) {
		if !cfg.Own[f.Tag] {
			run.Blocked(f.Tag)
			return
		}
		last := ""
		if len(path) > 0 {
			last = opSkel(path[len(path)-1])
		}
		sig := fmt.Sprintf("%s|%s|%s|%s|%s", f.Tag, cfg.Name, cfg.Backend, last, msgClass(f.Msg))
		run.Violation(sig, fmt.Sprintf("[%s %s depth %d] %s", cfg.Name, cfg.Backend, len(path), f.Msg),
			map[string]interface{}{"engine": "statespace", "config": cfg.Name, "backend": cfg.Backend, "twin": cfg.Twin, "init": cfg.Init, "path": path, "finding": f.Msg, "note": extra})
	}

	// initial state
	w0 := getW(0)
	model := m.NewDB()
	w0.in.Fresh(nil)
	if w0.twin != nil {
		w0.twin.Fresh(nil)
	}
	for _, o := range cfg.Init {
		_, next, fs := drv.Step(w0.in, model, o)
		for _, f := range fs {
			report(f, []m.Op{o}, "during setup")
		}
		model = next
		if w0.twin != nil {
			drv.Exec(w0.twin, o)
		}
	}
	init := &ssState{snap: w0.in.Dump(), model: model}
	if w0.twin != nil {
		init.twinSnap = w0.twin.Dump()
	}
	seen := map[string]bool{drv.CanonState(init.snap): true}
	var smu sync.Mutex
	frontier := []*ssState{init}
	nStates, nTrans := 1, 0
	for _, f := range ssBattery(cfg, run, w0, init) {
		report(f, nil, "initial state")
	}
	fixpoint := false
	depthDone := 0
	stopped := ""
	for depth := 1; cfg.MaxDepth == 0 || depth <= cfg.MaxDepth; depth++ {
		if len(frontier) == 0 {
			fixpoint = true
			break
		}
		if cfg.MaxStates > 0 && nStates >= cfg.MaxStates {
			stopped = fmt.Sprintf("state cap %d reached after depth %d", cfg.MaxStates, depthDone)
			run.NotExhaustive(cfg.Name + " on " + cfg.Backend + ": " + stopped + "; every state up to that depth was expanded")
			break
		}
		if cfg.Budget > 0 && time.Since(start) > cfg.Budget {
			stopped = fmt.Sprintf("time budget %s reached after depth %d", cfg.Budget, depthDone)
			run.NotExhaustive(cfg.Name + " on " + cfg.Backend + ": " + stopped + "; every state up to that depth was expanded")
			break
		}
		type task struct {
			s  *ssState
			op m.Op
		}
		tasks := []task{}
		for _, s := range frontier {
			for _, o := range cfg.Alphabet {
				tasks = append(tasks, task{s, o})
			}
		}
		next := []*ssState{}
		var nmu sync.Mutex
		ParallelFor(len(tasks), 0, func(w, i int) {
			sw := getW(w)
			t := tasks[i]
			path := append(append([]m.Op{}, t.s.path...), t.op)
			if _, err := sw.in.Fresh(t.s.snap); err != nil {
				panic(err)
			}
			before := ""
			res, nm, fs := drv.Step(sw.in, t.s.model, t.op)
			run.Add("transitions", 1)
			run.Distinct("ops_results", opSkel(t.op)+"=>"+res.Class)
			broken := res.Panic != nil || res.Leak != ""
			var snap []vstore.KV
			if !broken {
				snap = sw.in.Dump()
				if res.Err != nil {
					before = drv.CanonState(t.s.snap)
					if drv.CanonState(snap) != before {
						fs = append(fs, Finding{Tag: "error-changed-state", Msg: fmt.Sprintf("%s returned error %v but changed the stored state", t.op, res.Err)})
					}
				}
			}
			var twinSnap []vstore.KV
			if sw.twin != nil {
				if _, err := sw.twin.Fresh(t.s.twinSnap); err != nil {
					panic(err)
				}
				r2 := drv.Exec(sw.twin, t.op)
				if r2.Panic != nil || res.Panic != nil {
					if (r2.Panic != nil) != (res.Panic != nil) {
						fs = append(fs, Finding{Tag: "twin", Msg: fmt.Sprintf("%s: %s: %s but %s: %s", t.op, cfg.Backend, res, cfg.Twin, r2)})
					}
				} else if r2.Class != res.Class && !(r2.Class != m.OK && res.Class != m.OK && (r2.Class == m.EAny || res.Class == m.EAny)) {
					fs = append(fs, Finding{Tag: "twin", Msg: fmt.Sprintf("%s returned %s on %s but %s on %s", t.op, fmtE(res.Err), cfg.Backend, fmtE(r2.Err), cfg.Twin)})
				} else if r2.Class != res.Class {
					fs = append(fs, Finding{Tag: "twin", Msg: fmt.Sprintf("%s returned %s on %s but %s on %s (different sentinel)", t.op, fmtE(res.Err), cfg.Backend, fmtE(r2.Err), cfg.Twin)})
				}
				if r2.Panic == nil && r2.Leak == "" {
					twinSnap = sw.twin.Dump()
				} else {
					sw.twin.V.ForgetLeaks()
				}
			}
			for _, f := range fs {
				report(f, path, "")
			}
			if broken {
				return
			}
			key := drv.CanonState(snap)
			smu.Lock()
			known := seen[key]
			if !known {
				seen[key] = true
				nStates++
			}
			smu.Unlock()
			if known {
				return
			}
			ns := &ssState{snap: snap, twinSnap: twinSnap, model: nm, path: path, depth: len(path), gen: len(res.GenIDs) > 0 && res.Err == nil}
			bf := ssBattery(cfg, run, sw, ns)
			for _, f := range bf {
				report(f, path, "in the state reached")
			}
			if len(res.GenIDs) > 0 && res.Err == nil {
				run.Add("states_with_generated_ids_not_expanded", 1)
				return
			}
			if len(bf) > 0 || len(fs) > 0 {
				run.Add("violating_states_not_expanded", 1)
				return
			}
			nmu.Lock()
			next = append(next, ns)
			nmu.Unlock()
		})
		nTrans += len(tasks)
		depthDone = depth
		run.Sample(map[string]interface{}{"depth": depth, "example_path": tasks[len(tasks)/2].s.path, "then": tasks[len(tasks)/2].op})
		frontier = next
	}
	if !fixpoint && stopped == "" && cfg.MaxDepth > 0 {
		stopped = fmt.Sprintf("depth bound %d reached (frontier of %d states not expanded)", cfg.MaxDepth, len(frontier))
	}
	pfx := cfg.Name + "_" + cfg.Backend + "_"
	run.Set(pfx+"states", nStates)
	run.Set(pfx+"transitions", nTrans)
	run.Set(pfx+"max_depth", depthDone)
	run.Set(pfx+"fixpoint", fixpoint)
	run.Set(pfx+"alphabet", len(cfg.Alphabet))
	if stopped != "" {
		run.Set(pfx+"stopped", stopped)
	}
	run.Add("states", int64(nStates))
	run.Add("evaluations", int64(nTrans))
}

func fmtE(err error) string {
	if err == nil {
		return "success"
	}
	return "error " + err.Error()
}

// opSkel: the operation without its payload.
func opSkel(o m.Op) string {
	s := o.K
	if o.Coll != "" {
		s += " " + o.Coll
	}
	if o.Field != "" {
		s += " " + o.Field
	}
	if o.Q != nil {
		s += " " + o.Q.Coll + " " + o.Q.Crit.Skel() + " " + o.Q.ShapeClass()
	}
	if o.Upd != nil {
		s += " " + o.Upd.Style
	}
	return strings.TrimSpace(s)
}

// msgClass reduces a finding message to a short class (digits and quoted payloads removed).
func msgClass(s string) string {
	var sb strings.Builder
	inQ := false
	for _, r := range s {
		if r == '"' {
			inQ = !inQ
			continue
		}
		if inQ || (r >= '0' && r <= '9') {
			continue
		}
		sb.WriteRune(r)
		if sb.Len() > 70 {
			break
		}
	}
	return sb.String()
}

// ssBattery runs the per-state oracles on the instance as it stands (it holds the new state).
func ssBattery(cfg *SSConfig, run *ev.Run, sw *ssWorker, s *ssState) []Finding {
	out := drv.AuditAPI(sw.in, s.model, cfg.Audit)
	run.Add("states_audited", 1)
	if cfg.Raw {
		out = append(out, drv.AuditRaw(sw.in, sw.scratch, s.model)...)
	}
	for _, q := range cfg.Derived {
		if s.model.Colls[q.Coll] == nil {
			continue
		}
		fs, n := drv.Derived(sw.in, q, false)
		run.Add("derived_evaluations", int64(n))
		out = append(out, fs...)
	}
	if sw.twin != nil && s.twinSnap != nil && !s.gen {
		// same observable content, same order where defined, on both backends
		for _, name := range s.model.CollNames() {
			q := &m.Q{Coll: name}
			a, ea, pa := drv.FindAllMaps(sw.in, q)
			b, eb, pb := drv.FindAllMaps(sw.twin, q)
			if pa != nil || pb != nil || (ea == nil) != (eb == nil) {
				out = append(out, Finding{Tag: "twin", Msg: fmt.Sprintf("FindAll(%s): %s -> err=%v panic=%v, %s -> err=%v panic=%v", name, cfg.Backend, ea, pa, cfg.Twin, eb, pb)})
				continue
			}
			if len(a) != len(b) {
				out = append(out, Finding{Tag: "twin", Msg: fmt.Sprintf("FindAll(%s) returns %d documents on %s and %d on %s", name, len(a), cfg.Backend, len(b), cfg.Twin)})
				continue
			}
			for i := range a {
				if !m.Equal(a[i], b[i]) {
					out = append(out, Finding{Tag: "twin", Msg: fmt.Sprintf("FindAll(%s)[%d] = %s on %s, %s on %s", name, i, m.Canon(a[i]), cfg.Backend, m.Canon(b[i]), cfg.Twin)})
					break
				}
			}
		}
		if ca, cb := drv.CanonState(sw.in.Dump()), drv.CanonState(sw.twin.Dump()); ca != cb {
			// informational only: the property speaks of what the API returns; a backend is free to keep its records differently
			run.Add("states_with_backend_specific_raw_content", 1)
		}
	}
	if cfg.Reopen {
		if ok, err := sw.in.Reopen(); ok {
			if err != nil {
				out = append(out, Finding{Tag: "reopen", Msg: fmt.Sprintf("reopen failed: %v", err)})
			} else {
				if drv.CanonState(sw.in.Dump()) != drv.CanonState(s.snap) {
					// Open may legitimately rewrite its own records (a format marker, a migration): what counts is that
					// the content is still exactly what a rebuild of the same logical state holds
					run.Add("states_rewritten_by_open", 1)
					for _, f := range drv.AuditRaw(sw.in, sw.scratch, s.model) {
						out = append(out, Finding{Tag: "reopen", Msg: "after reopen: " + f.Msg})
					}
				}
				for _, f := range drv.AuditAPI(sw.in, s.model, drv.AuditOpts{}) {
					out = append(out, Finding{Tag: "reopen", Msg: "after reopen: " + f.Msg})
				}
			}
		}
	}
	return out
}
