package eng

import (
	"encoding/json"
	"fmt"
	"os"
	"strings"

	"verif/drv"
	"verif/m"
)

// Replay re-executes the witness stored in a replay file without any explorer and reports what it observes.
// It returns true if a finding was reproduced.
func Replay(path string) (bool, error) {
	b, err := os.ReadFile(path)
	if err != nil {
		return false, err
	}
	var file struct {
		Property  string
		Signature string
		Message   string
		Witness   json.RawMessage
	}
	if err := json.Unmarshal(b, &file); err != nil {
		return false, err
	}
	var head struct{ Engine string }
	json.Unmarshal(file.Witness, &head)
	fmt.Printf("replaying %s witness for %s\n  recorded: %s\n", head.Engine, file.Property, file.Message)
	switch head.Engine {
	case "statespace":
		var w struct {
			Backend, Twin string
			Init, Path    []m.Op
		}
		if err := json.Unmarshal(file.Witness, &w); err != nil {
			return false, err
		}
		in := drv.MustOpen(w.Backend)
		defer in.Close()
		scratch := drv.MustOpen(w.Backend)
		defer scratch.Close()
		model := m.NewDB()
		found := false
		for i, o := range append(append([]m.Op{}, w.Init...), w.Path...) {
			before := drv.CanonState(in.Dump())
			res, next, fs := drv.Step(in, model, o)
			fmt.Printf("  step %d: %s -> %s\n", i, o, res)
			if res.Err != nil && res.Panic == nil && res.Leak == "" && drv.CanonState(in.Dump()) != before {
				fs = append(fs, Finding{Tag: "error-changed-state", Msg: "the operation failed but changed the stored state"})
			}
			model = next
			if res.Panic == nil && res.Leak == "" {
				fs = append(fs, drv.AuditAPI(in, model, drv.AuditOpts{})...)
				fs = append(fs, drv.AuditRaw(in, scratch, model)...)
			}
			for _, f := range fs {
				fmt.Printf("    FINDING %s\n", f)
				found = true
			}
			if res.Leak != "" {
				in.V.ForgetLeaks()
				break
			}
		}
		return found, nil
	case "querysweep":
		var w struct {
			Backend string
			Twin    Twin
			Op      string
			Query   *m.Q
		}
		if err := json.Unmarshal(file.Witness, &w); err != nil {
			return false, err
		}
		in := drv.MustOpen(w.Backend)
		defer in.Close()
		docs := DefaultDataset()
		base := Twin{Name: "t0"}
		for _, t := range []Twin{base, w.Twin} {
			if err := buildTwin(in, t, docs); err != nil && t.Name != base.Name {
				return false, err
			}
		}
		cfg := &QSConfig{Docs: docs, Twins: []Twin{base, w.Twin}}
		model := modelFor(cfg)
		found := false
		for _, t := range cfg.Twins {
			q := *w.Query
			q.Coll = t.Name
			var op m.Op
			switch w.Op {
			case "findAll":
				op = m.Op{K: "findAll", Q: &q}
				r := drv.Exec(in, op)
				err := error(nil)
				if r.Panic == nil && r.Err == nil {
					err = model.CheckFind(&q, r.Docs)
				}
				fmt.Printf("  %s FindAll(%s): %s, %d documents, vs model: %v\n    result: %s\n", t, q.String(), r, len(r.Docs), err, trunc(resultSig(&q, r.Docs)))
				if err != nil || r.Panic != nil || r.Err != nil {
					found = true
				}
			default:
				op = m.Op{K: w.Op, Q: &q}
				if w.Op == "update" {
					op.Set = map[string]interface{}{"u": int64(1), "y": "upd", "n.a": int64(42)}
				}
				if w.Op == "updateFunc" {
					op.Upd = &m.Updater{Set: map[string]interface{}{"u": int64(2), "x": int64(7)}, Style: "inplace"}
				}
				res, next, fs := drv.Step(in, model, op)
				fmt.Printf("  %s %s: %s\n", t, op, res)
				model = next
				if docs, err, pan := drv.FindAllMaps(in, &m.Q{Coll: t.Name}); err == nil && pan == nil {
					if err := model.CheckFind(&m.Q{Coll: t.Name}, docs); err != nil {
						fs = append(fs, Finding{Tag: "state", Msg: err.Error()})
					}
				}
				for _, f := range fs {
					fmt.Printf("    FINDING %s\n", f)
					found = true
				}
			}
		}
		return found, nil
	case "sched":
		var w struct {
			Scenario *Scenario
			Backend  string
			Points   string
			Schedule []int
		}
		if err := json.Unmarshal(file.Witness, &w); err != nil {
			return false, err
		}
		in := drv.MustOpen(w.Backend)
		in.OnOpen = pregrowIfBBolt
		pregrowIfBBolt(in)
		init := m.NewDB()
		for _, o := range w.Scenario.Setup {
			_, init, _ = drv.Step(in, init, o)
		}
		snap := in.Dump()
		x := runSchedule(in, snap, w.Scenario, w.Points, w.Schedule)
		if x.abort != "" {
			fmt.Println("  aborted:", x.abort)
			return true, nil
		}
		ok := linearizable(init, x)
		fmt.Printf("  schedule %v\n  %s\n  linearizable: %v\n", x.choices, strings.ReplaceAll(describeHist(x), "; ", "\n  "), ok)
		in.Close()
		return !ok, nil
	case "faultenum":
		var w struct {
			Backend          string
			Pre              []m.Op
			Op               m.Op
			FailingCallIndex int `json:"failing_call_index"`
		}
		if err := json.Unmarshal(file.Witness, &w); err != nil {
			return false, err
		}
		in := drv.MustOpen(w.Backend)
		defer in.Close()
		for _, o := range w.Pre {
			drv.Exec(in, o)
		}
		before := drv.CanonState(in.Dump())
		in.V.ResetCounters()
		in.V.FailAt = map[int]bool{w.FailingCallIndex: true}
		res := drv.Exec(in, w.Op)
		in.V.FailAt = nil
		changed := res.Panic == nil && res.Leak == "" && drv.CanonState(in.Dump()) != before
		fmt.Printf("  %s with store call #%d failing -> %s; state changed: %v; faults fired: %d\n", w.Op, w.FailingCallIndex, res, changed, len(in.V.Failed))
		in.V.ForgetLeaks()
		return res.Panic != nil || res.Leak != "" || res.Err == nil || changed, nil
	case "bulksweep":
		var w struct {
			Backend string
			N, Pad  int
			Indexes []string
			Op      m.Op
		}
		if err := json.Unmarshal(file.Witness, &w); err != nil {
			return false, err
		}
		in := drv.MustOpen(w.Backend)
		defer in.Close()
		scratch := drv.MustOpen(w.Backend)
		defer scratch.Close()
		model := m.NewDB()
		setup := []m.Op{{K: "createColl", Coll: "a"}}
		for _, f := range w.Indexes {
			setup = append(setup, m.Op{K: "createIndex", Coll: "a", Field: f})
		}
		docs := []m.Doc{}
		for i := 0; i < w.N; i++ {
			docs = append(docs, bulkDoc(i, w.Pad))
		}
		if len(docs) > 0 {
			setup = append(setup, m.Op{K: "insert", Coll: "a", Docs: docs})
		}
		setup = append(setup, m.Op{K: "createColl", Coll: "ab"}, m.Op{K: "createIndex", Coll: "ab", Field: "x"}, m.Op{K: "insert", Coll: "ab", Docs: []m.Doc{bulkDoc(0, 0), bulkDoc(1, 0)}})
		for _, o := range setup {
			_, model, _ = drv.Step(in, model, o)
		}
		res, next, fs := drv.Step(in, model, w.Op)
		fmt.Printf("  %s on %d documents -> %s (update function ran %d times)\n", w.Op, w.N, res, len(res.Affected))
		if res.Panic == nil {
			fs = append(fs, drv.AuditAPI(in, next, drv.AuditOpts{})...)
			fs = append(fs, drv.AuditRaw(in, scratch, next)...)
		}
		for i, f := range fs {
			if i < 10 {
				fmt.Printf("    FINDING %s\n", f)
			}
		}
		return len(fs) > 0, nil
	}
	fmt.Printf("  no executable replay for engine %q; the witness is:\n%s\n", head.Engine, string(file.Witness))
	return false, nil
}
