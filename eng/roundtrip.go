package eng

import (
	"fmt"
	"math"
	"strings"
	"time"

	"github.com/ostafen/clover/v2/document"
	"verif/drv"
	"verif/ev"
	"verif/m"
)

func roundtripLeaves() []interface{} {
	ny, _ := time.LoadLocation("America/New_York")
	if ny == nil {
		ny = time.FixedZone("EST", -5*3600)
	}
	return []interface{}{
		nil, true, false,
		int64(0), int64(-1), int64(math.MinInt64), int64(math.MaxInt64), int64(1 << 53), int64(127), int64(-129),
		uint64(0), uint64(255), uint64(1 << 63), uint64(math.MaxUint64),
		float64(0), math.Copysign(0, -1), float64(1.5), float64(1e300), float64(5), math.Inf(-1),
		"", "a", "\xff\xfe bad utf8", "multi\nline é", strings.Repeat("long-value-", 600),
		time.Date(2024, 2, 29, 13, 14, 15, 123456789, time.UTC),
		time.Date(1999, 12, 31, 23, 59, 59, 999999999, time.FixedZone("", 5*3600+30*60)),
		time.Date(2010, 7, 4, 9, 0, 0, 1, ny),
		time.Date(1960, 1, 1, 0, 0, 0, 0, time.FixedZone("", -3600)),
		// local mean time zones: offsets with a seconds part, east and west of Greenwich (Amsterdam before 1937, New York before 1883)
		time.Date(1930, 5, 1, 12, 0, 0, 0, time.FixedZone("AMT", 19*60+32)),
		time.Date(1880, 5, 1, 12, 0, 0, 5, time.FixedZone("LMT", -(4*3600+56*60+2))),
	}
}

// RoundtripValues: value ::= leaf | [v] | [v, small] | {k: v} | {k: v, k2: small}, to the given depth.
func RoundtripValues(depth int) []interface{} {
	leaves := roundtripLeaves()
	small := []interface{}{nil, int64(7), time.Date(2001, 2, 3, 4, 5, 6, 7, time.FixedZone("", 2*3600))}
	level := append([]interface{}{}, leaves...)
	all := append([]interface{}{}, leaves...)
	all = append(all, []interface{}{}, map[string]interface{}{})
	for d := 2; d <= depth; d++ {
		next := []interface{}{}
		for _, v := range level {
			next = append(next, []interface{}{m.Clone(v)}, map[string]interface{}{"k": m.Clone(v)})
			for _, s := range small {
				next = append(next, []interface{}{m.Clone(v), s}, map[string]interface{}{"k": m.Clone(v), "k2": s})
			}
		}
		all = append(all, next...)
		level = next
	}
	return all
}

// RoundtripSweep: every value at three placements is written (Insert, and again through ReplaceById/Update),
// read back by id and by query, before and after reopening, and must be deeply equal in type and value (C11).
func RoundtripSweep(run *ev.Run, backend string, vals []interface{}) {
	in := drv.MustOpen(backend)
	defer func() { in.Close() }()
	if err := in.DB.CreateCollection("a"); err != nil {
		panic(err)
	}
	type item struct {
		id   string
		want m.Doc
		desc string
	}
	items := []item{}
	n := 0
	for _, v := range vals {
		for pi, place := range []func(interface{}) m.Doc{
			func(v interface{}) m.Doc { return m.Doc{"f": v} },
			func(v interface{}) m.Doc { return m.Doc{"f": []interface{}{int64(1), v}} },
			func(v interface{}) m.Doc {
				return m.Doc{"f": []interface{}{map[string]interface{}{"o": v}}, "g": map[string]interface{}{"h": v}}
			},
		} {
			n++
			d := place(m.Clone(v))
			d["_id"] = ID(n)
			items = append(items, item{id: ID(n), want: d, desc: fmt.Sprintf("%s at placement %d", m.Canon(v), pi)})
		}
	}
	viol := func(kind string, it item, msg string) {
		run.Violation(kind+"|"+backend+"|"+typePath(it.want["f"]), fmt.Sprintf("[%s] %s: %s", backend, it.desc, msg), map[string]interface{}{"engine": "roundtrip", "backend": backend, "document": m.ToJSON(it.want), "finding": msg})
	}
	// insert in batches
	for i := 0; i < len(items); i += 30 {
		j := i + 30
		if j > len(items) {
			j = len(items)
		}
		docs := []*document.Document{}
		for _, it := range items[i:j] {
			// an object with two fields beside the value under test: a later bulk Update through the path "o.w" must
			// change that one field and keep its sibling
			it.want["o"] = map[string]interface{}{"keep": m.Clone(it.want["f"]), "w": int64(0)}
			docs = append(docs, drv.Doc(it.want))
		}
		if err := in.DB.Insert("a", docs...); err != nil {
			run.Violation("insert-error|"+backend, fmt.Sprintf("Insert of a batch of supported documents failed: %v", err), nil)
			return
		}
		// what the caller does with its own document objects afterwards must not reach the stored documents
		for _, d := range docs {
			d.Set("f", "changed by the caller after Insert")
			d.Set("g.h", int64(-1))
		}
	}
	check := func(stage string) {
		all, err, pan := drv.FindAllMaps(in, &m.Q{Coll: "a"})
		if err != nil || pan != nil {
			run.Violation("findall-error|"+backend+"|"+stage, fmt.Sprintf("FindAll failed %s: err=%v panic=%v", stage, err, pan), nil)
			return
		}
		byID := map[string]m.Doc{}
		for _, d := range all {
			id, _ := d["_id"].(string)
			byID[id] = d
		}
		for _, it := range items {
			run.Add("evaluations", 2)
			run.Distinct("documents", it.id)
			r := drv.Exec(in, m.Op{K: "findById", Coll: "a", Id: it.id})
			if r.Panic != nil || r.Err != nil || len(r.Docs) != 1 {
				viol("findbyid-"+stage, it, fmt.Sprintf("FindById %s: %s, %d documents", stage, r, len(r.Docs)))
				continue
			}
			if !m.Equal(r.Docs[0], it.want) {
				viol("value-"+stage, it, fmt.Sprintf("read back by id %s as %s, written %s", stage, m.Canon(r.Docs[0]), m.Canon(it.want)))
				continue
			}
			if got := byID[it.id]; got == nil || !m.Equal(got, it.want) {
				viol("value-query-"+stage, it, fmt.Sprintf("read back by query %s as %s, written %s", stage, m.Canon(got), m.Canon(it.want)))
			}
		}
	}
	check("after insert")
	if ok, err := in.Reopen(); ok {
		if err != nil {
			run.Violation("reopen|"+backend, fmt.Sprintf("reopen failed: %v", err), nil)
			return
		}
		check("after reopen")
	}
	// rewrite every document through ReplaceById with the same content plus a marker, and through Update
	for i := range items {
		it := &items[i]
		it.want["mark"] = int64(i)
		if err := in.DB.ReplaceById("a", it.id, drv.Doc(it.want)); err != nil {
			viol("replace", *it, fmt.Sprintf("ReplaceById failed: %v", err))
		}
	}
	for lo := 0; lo < len(items); lo += 30 { // in chunks: the small badger memtable used by the harness limits transaction size
		c := m.And(m.Leaf("gte", "mark", int64(lo)), m.Leaf("lt", "mark", int64(lo+30)))
		if err := in.DB.Update(drv.Query(&m.Q{Coll: "a", Crit: c}), map[string]interface{}{"upd": "u", "o.w": int64(5)}); err != nil {
			run.Violation("update-error|"+backend, fmt.Sprintf("Update of a chunk of documents failed: %v", err), nil)
			return
		}
	}
	for i := range items {
		items[i].want["upd"] = "u"
		items[i].want["o"].(map[string]interface{})["w"] = int64(5)
	}
	check("after replace+update")
	// rewrites that change only the Go type of a number or only the zone of a time (values that compare equal under
	// the query order are still different documents): the new value must be what is read back
	tUTC := time.Date(2020, 5, 6, 7, 8, 9, 10, time.UTC)
	twins := [][2]interface{}{
		{int64(1), uint64(1)}, {int64(1), float64(1)}, {uint64(7), int64(7)}, {float64(2), int64(2)}, {int64(0), math.Copysign(0, -1)},
		{tUTC, tUTC.In(time.FixedZone("", 3*3600))}, {tUTC.In(time.FixedZone("", -2*3600)), tUTC},
		{[]interface{}{int64(1), "a"}, []interface{}{float64(1), "a"}}, {map[string]interface{}{"k": uint64(3)}, map[string]interface{}{"k": int64(3)}},
		{[]interface{}{map[string]interface{}{"t": tUTC}}, []interface{}{map[string]interface{}{"t": tUTC.In(time.FixedZone("", 3600))}}},
	}
	for ti, tw := range twins {
		for wi, how := range []string{"replaceById", "updateById-inplace", "updateById-copy", "update"} {
			id := ID(800000 + ti*10 + wi)
			first := m.Doc{"_id": id, "f": m.Clone(tw[0]), "keep": "k"}
			second := m.Doc{"_id": id, "f": m.Clone(tw[1]), "keep": "k"}
			it := item{id: id, want: second, desc: fmt.Sprintf("%s rewritten as %s by %s", m.Canon(tw[0]), m.Canon(tw[1]), how)}
			if err := in.DB.Insert("a", drv.Doc(first)); err != nil {
				viol("type-rewrite-insert", it, err.Error())
				continue
			}
			var r *drv.Result
			switch how {
			case "replaceById":
				r = drv.Exec(in, m.Op{K: "replaceById", Coll: "a", Id: id, Docs: []m.Doc{second}})
			case "updateById-inplace":
				r = drv.Exec(in, m.Op{K: "updateById", Coll: "a", Id: id, Upd: &m.Updater{Set: map[string]interface{}{"f": tw[1]}, Style: "inplace"}})
			case "updateById-copy":
				r = drv.Exec(in, m.Op{K: "updateById", Coll: "a", Id: id, Upd: &m.Updater{Set: map[string]interface{}{"f": tw[1]}, Style: "copy"}})
			default:
				r = drv.Exec(in, m.Op{K: "update", Q: &m.Q{Coll: "a", Crit: m.Leaf("eq", "_id", id)}, Set: map[string]interface{}{"f": tw[1]}})
			}
			run.Add("evaluations", 1)
			run.Distinct("documents", id)
			if r.Panic != nil || r.Err != nil {
				viol("type-rewrite-error", it, r.String())
				continue
			}
			g := drv.Exec(in, m.Op{K: "findById", Coll: "a", Id: id})
			if len(g.Docs) != 1 || !m.Equal(g.Docs[0], second) {
				got := interface{}(nil)
				if len(g.Docs) == 1 {
					got = g.Docs[0]
				}
				viol("type-rewrite", it, fmt.Sprintf("read back %s, last written %s", m.Canon(got), m.Canon(second)))
			}
		}
	}
	run.Sample(map[string]interface{}{"document": m.ToJSON(items[len(items)/2].want)})
}

func typePath(v interface{}) string {
	switch x := v.(type) {
	case []interface{}:
		if len(x) == 0 {
			return "[]"
		}
		return "[" + typePath(x[len(x)-1])
	case map[string]interface{}:
		for _, k := range m.SortedKeys(x) {
			return "{" + typePath(x[k])
		}
		return "{}"
	}
	return typeName(v)
}
