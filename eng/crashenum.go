package eng

import (
	"bufio"
	"encoding/json"
	"fmt"
	"io"
	"os"
	"os/exec"
	"path/filepath"
	"strings"
	"syscall"

	clover "github.com/ostafen/clover/v2"
	"verif/drv"
	"verif/ev"
	"verif/m"
	"verif/vstore"
)

// CrashHistory: a prepared state (built and acknowledged before any crash point) and a history of write operations.
type CrashHistory struct {
	Name   string
	Prep   []m.Op
	Ops    []m.Op
	Stride int // > 1: only every Stride-th store call is a crash point (histories with thousands of calls)
	// MayFail: an operation of the history may be refused by the store (e.g. badger's transaction size limit); a
	// refused operation must have no effect, also when the process dies while it is being attempted
	MayFail bool
}

func copyFile(src, dst string) error {
	in, err := os.Open(src)
	if err != nil {
		return err
	}
	defer in.Close()
	out, err := os.Create(dst)
	if err != nil {
		return err
	}
	defer out.Close()
	_, err = io.Copy(out, in)
	return err
}

// referenceRun executes prep+ops on a scratch instance and returns the model state after the prep and after each op.
func referenceRun(backend string, h *CrashHistory) (states []*m.DB, problems []Finding) {
	in := drv.MustOpen(backend)
	defer in.Close()
	model := m.NewDB()
	for _, o := range h.Prep {
		_, next, fs := drv.Step(in, model, o)
		problems = append(problems, fs...)
		model = next
	}
	states = append(states, model)
	for _, o := range h.Ops {
		res, next, fs := drv.Step(in, model, o)
		if res.Err != nil && h.MayFail && res.Panic == nil {
			states = append(states, model) // refused: no effect
			continue
		}
		problems = append(problems, fs...) // an error the reference model allows (and then no effect) is a legal step of a history
		model = next
		states = append(states, model)
	}
	return states, problems
}

// checkRecovered opens dir with the plain public Open (no wrapper, no repair step) and decides whether the
// recovered database is exactly one of the allowed model states, with intact indexes, counts and catalog.
func checkRecovered(backend, dir string, allowed []*m.DB, scratch *drv.Inst) (which int, findings []Finding) {
	var in *drv.Inst
	var err error
	pan := safely(func() { in, err = drv.OpenAt(backend, dir) })
	if pan != nil || err != nil {
		return -1, []Finding{{Tag: "reopen", Msg: fmt.Sprintf("the database cannot be reopened after the crash: err=%v panic=%v", err, pan)}}
	}
	defer func() {
		in.DB.Close()
	}()
	var firstFs []Finding
	for i, model := range allowed {
		fs := drv.AuditAPI(in, model, drv.AuditOpts{})
		fs = append(fs, drv.AuditRaw(in, scratch, model)...)
		if len(fs) == 0 {
			return i, nil
		}
		if i == 0 {
			firstFs = fs
		}
	}
	msgs := []string{}
	for i, f := range firstFs {
		if i < 4 {
			msgs = append(msgs, f.String())
		}
	}
	return -1, []Finding{{Tag: "crash-state", Msg: fmt.Sprintf("the recovered database matches none of the %d allowed states (all acknowledged operations, optionally plus the one in flight); against the acknowledged state: %s", len(allowed), strings.Join(msgs, " || "))}}
}

// CrashSnapshots (bbolt): the image of the database file at every store call of the history is what a process
// killed at that instant leaves behind (bbolt writes with pwrite and reads through a read-only mmap; completed
// writes survive the death of the process). Every image is reopened and checked.
func CrashSnapshots(run *ev.Run, hs []*CrashHistory, ownTags map[string]bool) {
	scratches := map[int]*drv.Inst{}
	lock := make(chan struct{}, 1)
	lock <- struct{}{}
	getScratch := func(w int) *drv.Inst {
		<-lock
		defer func() { lock <- struct{}{} }()
		if scratches[w] == nil {
			scratches[w] = drv.MustOpen(drv.BBolt)
		}
		return scratches[w]
	}
	defer func() {
		for _, s := range scratches {
			s.Close()
		}
	}()
	ParallelFor(len(hs), 0, func(w, hi int) {
		h := hs[hi]
		report := func(f Finding, k int, opIdx int) {
			if !ownTags[f.Tag] {
				run.Blocked(f.Tag)
				return
			}
			inflight := "between operations"
			if opIdx >= 0 && opIdx < len(h.Ops) {
				inflight = "during " + opSkel(h.Ops[opIdx])
			}
			run.Violation(fmt.Sprintf("%s|bbolt-image|%s|%s", f.Tag, inflight, msgClass(f.Msg)), fmt.Sprintf("[bbolt file image at store call #%d, %s, history %s] %s", k, inflight, h.Name, f.Msg),
				map[string]interface{}{"engine": "crashenum", "mode": "bbolt-file-image", "prep": h.Prep, "history": h.Ops, "store_call": k, "finding": f.Msg})
		}
		states, problems := referenceRun(drv.BBolt, h)
		for _, p := range problems {
			report(Finding{Tag: "setup", Msg: p.Msg}, -1, -1)
		}
		if len(problems) > 0 {
			return
		}
		in := drv.MustOpen(drv.BBolt)
		defer in.Close()
		for _, o := range h.Prep {
			drv.Exec(in, o)
		}
		snapDir := drv.NewScratchDir()
		defer os.RemoveAll(snapDir)
		type snap struct {
			k, acked, inflight int
			dir                string
		}
		snaps := []snap{}
		acked, inflight := 0, -1
		k := 0
		take := func() {
			d := filepath.Join(snapDir, fmt.Sprintf("s%d", k))
			os.MkdirAll(d, 0o755)
			if err := copyFile(filepath.Join(in.Dir, "data.db"), filepath.Join(d, "data.db")); err != nil {
				panic(err)
			}
			snaps = append(snaps, snap{k: k, acked: acked, inflight: inflight, dir: d})
			k++
		}
		ncall := 0
		in.V.Hook = func(c vstore.Call) {
			ncall++
			if h.Stride <= 1 || ncall%h.Stride == 0 {
				take()
			}
		}
		for i, o := range h.Ops {
			inflight = i
			drv.Exec(in, o)
			acked, inflight = i+1, -1
			take() // between operations
		}
		in.V.Hook = nil
		scratch := getScratch(w)
		for _, s := range snaps {
			allowed := []*m.DB{states[s.acked]}
			if s.inflight >= 0 {
				allowed = append(allowed, states[s.acked+1])
			}
			which, fs := checkRecovered(drv.BBolt, s.dir, allowed, scratch)
			run.Add("evaluations", 1)
			run.Distinct("crash_points", fmt.Sprintf("%s/%d", h.Name, s.k))
			if which == 1 {
				run.Add("crash_points_where_inflight_op_was_durable", 1)
			}
			for _, f := range fs {
				report(f, s.k, s.inflight)
			}
			os.RemoveAll(s.dir)
		}
		if hi%37 == 0 {
			run.Sample(map[string]interface{}{"mode": "bbolt file image at every store call", "history": h.Ops, "crash_points": len(snaps)})
		}
	})
}

// ---- real process kills ----

// CrashWorker is the child process: it opens the database at dir, replays the history, appends "start i" /
// "ack i" to the journal file, and kills itself with SIGKILL at the k-th store call (k < 0: never).
func CrashWorker(backend, dir, historyFile string, killAt int) int {
	b, err := os.ReadFile(historyFile)
	if err != nil {
		fmt.Fprintln(os.Stderr, err)
		return 2
	}
	var h CrashHistory
	if err := json.Unmarshal(b, &h); err != nil {
		fmt.Fprintln(os.Stderr, err)
		return 2
	}
	in, err := drv.OpenAt(backend, dir)
	if err != nil {
		fmt.Fprintln(os.Stderr, err)
		return 2
	}
	j, _ := os.OpenFile(filepath.Join(filepath.Dir(historyFile), "journal"), os.O_CREATE|os.O_WRONLY|os.O_APPEND, 0o644)
	say := func(s string) { j.WriteString(s + "\n") }
	for _, o := range h.Prep {
		if r := drv.Exec(in, o); r.Err != nil || r.Panic != nil {
			fmt.Fprintln(os.Stderr, "prep failed:", o, r)
			return 2
		}
	}
	say("prepared")
	n := 0
	in.V.Hook = func(c vstore.Call) {
		if n == killAt {
			syscall.Kill(os.Getpid(), syscall.SIGKILL)
			select {}
		}
		n++
	}
	for i, o := range h.Ops {
		say(fmt.Sprintf("start %d", i))
		r := drv.Exec(in, o)
		if r.Err != nil || r.Panic != nil {
			say(fmt.Sprintf("fail %d", i))
		} else {
			say(fmt.Sprintf("ack %d", i))
		}
	}
	say(fmt.Sprintf("calls %d", n))
	// deliberately no Close: the process just ends
	return 0
}

// CrashKills runs the history in a child process once per store call k, killing it there, then reopens.
func CrashKills(run *ev.Run, exe, backend string, hs []*CrashHistory, ownTags map[string]bool) {
	type task struct {
		h *CrashHistory
		k int
	}
	tasks := []task{}
	stateCache := map[string][]*m.DB{}
	work := drv.NewScratchDir()
	defer os.RemoveAll(work)
	report := func(h *CrashHistory, f Finding, k int, inflight int) {
		if !ownTags[f.Tag] {
			run.Blocked(f.Tag)
			return
		}
		where := "between operations"
		if inflight >= 0 && inflight < len(h.Ops) {
			where = "during " + opSkel(h.Ops[inflight])
		}
		run.Violation(fmt.Sprintf("%s|%s-kill|%s|%s", f.Tag, backend, where, msgClass(f.Msg)), fmt.Sprintf("[%s process killed at store call #%d, %s, history %s] %s", backend, k, where, h.Name, f.Msg),
			map[string]interface{}{"engine": "crashenum", "mode": "sigkill", "backend": backend, "prep": h.Prep, "history": h.Ops, "store_call": k, "finding": f.Msg})
	}
	for hi, h := range hs {
		states, problems := referenceRun(backend, h)
		if len(problems) > 0 {
			for _, p := range problems {
				report(h, Finding{Tag: "setup", Msg: p.Msg}, -1, -1)
			}
			continue
		}
		stateCache[h.Name] = states
		// dry run in a child to count the store calls
		d := filepath.Join(work, fmt.Sprintf("h%d-dry", hi))
		os.MkdirAll(filepath.Join(d, "db"), 0o755)
		hb, _ := json.Marshal(h)
		os.WriteFile(filepath.Join(d, "history.json"), hb, 0o644)
		out, err := exec.Command(exe, "crashworker", backend, filepath.Join(d, "db"), filepath.Join(d, "history.json"), "-1").CombinedOutput()
		if err != nil {
			report(h, Finding{Tag: "setup", Msg: fmt.Sprintf("crash worker dry run failed: %v %s", err, out)}, -1, -1)
			continue
		}
		calls := 0
		for _, l := range readLines(filepath.Join(d, "journal")) {
			fmt.Sscanf(l, "calls %d", &calls)
		}
		os.RemoveAll(d)
		for k := 0; k < calls; k++ {
			if h.Stride <= 1 || k%h.Stride == 0 {
				tasks = append(tasks, task{h, k})
			}
		}
	}
	scratches := map[int]*drv.Inst{}
	lock := make(chan struct{}, 1)
	lock <- struct{}{}
	getScratch := func(w int) *drv.Inst {
		<-lock
		defer func() { lock <- struct{}{} }()
		if scratches[w] == nil {
			b := backend
			if b == drv.BadgerDisk {
				b = drv.Badger
			}
			scratches[w] = drv.MustOpen(b)
		}
		return scratches[w]
	}
	defer func() {
		for _, s := range scratches {
			s.Close()
		}
	}()
	ParallelFor(len(tasks), 0, func(w, ti int) {
		t := tasks[ti]
		d := filepath.Join(work, fmt.Sprintf("t%d", ti))
		os.MkdirAll(filepath.Join(d, "db"), 0o755)
		defer os.RemoveAll(d)
		hb, _ := json.Marshal(t.h)
		os.WriteFile(filepath.Join(d, "history.json"), hb, 0o644)
		cmd := exec.Command(exe, "crashworker", backend, filepath.Join(d, "db"), filepath.Join(d, "history.json"), fmt.Sprint(t.k))
		err := cmd.Run()
		killed := false
		if ee, ok := err.(*exec.ExitError); ok {
			if ws, ok := ee.Sys().(syscall.WaitStatus); ok && ws.Signaled() && ws.Signal() == syscall.SIGKILL {
				killed = true
			}
		}
		if !killed {
			report(t.h, Finding{Tag: "harness", Msg: fmt.Sprintf("the crash worker was not killed at call %d (err=%v)", t.k, err)}, t.k, -1)
			return
		}
		acked, inflight := 0, -1
		prepared := false
		for _, l := range readLines(filepath.Join(d, "journal")) {
			var i int
			switch {
			case l == "prepared":
				prepared = true
			case strings.HasPrefix(l, "start "):
				fmt.Sscanf(l, "start %d", &i)
				inflight = i
			case strings.HasPrefix(l, "ack "):
				fmt.Sscanf(l, "ack %d", &i)
				acked, inflight = i+1, -1
			case strings.HasPrefix(l, "fail "):
				fmt.Sscanf(l, "fail %d", &i)
				acked, inflight = i+1, -1
			}
		}
		if !prepared {
			report(t.h, Finding{Tag: "harness", Msg: "killed before the prepared state was acknowledged"}, t.k, -1)
			return
		}
		states := stateCache[t.h.Name]
		allowed := []*m.DB{states[acked]}
		if inflight >= 0 {
			allowed = append(allowed, states[acked+1])
		}
		which, fs := checkRecovered(backend, filepath.Join(d, "db"), allowed, getScratch(w))
		run.Add("evaluations", 1)
		run.Add("process_kills", 1)
		run.Distinct("crash_points", fmt.Sprintf("kill/%s/%s/%d", backend, t.h.Name, t.k))
		if which == 1 {
			run.Add("crash_points_where_inflight_op_was_durable", 1)
		}
		for _, f := range fs {
			report(t.h, f, t.k, inflight)
		}
		if ti%53 == 0 {
			run.Sample(map[string]interface{}{"mode": "SIGKILL of a child process at a store call, then reopen", "backend": backend, "history": t.h.Ops, "killed_at_store_call": t.k})
		}
	})
}

func readLines(path string) []string {
	f, err := os.Open(path)
	if err != nil {
		return nil
	}
	defer f.Close()
	out := []string{}
	sc := bufio.NewScanner(f)
	for sc.Scan() {
		out = append(out, sc.Text())
	}
	return out
}

var _ = clover.Open
