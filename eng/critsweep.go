package eng

import (
	"fmt"
	"sort"
	"strings"

	clover "github.com/ostafen/clover/v2"
	"github.com/ostafen/clover/v2/document"
	"github.com/ostafen/clover/v2/query"
	"verif/drv"
	"verif/ev"
	"verif/m"
)

// AlgebraDocs: documents for the criteria-algebra sweep: x over a type-rich set, y (the field referenced by
// operands) over a small set.
func AlgebraDocs() []m.Doc {
	absent := struct{}{}
	xs := []interface{}{absent, nil, int64(1), uint64(1), float64(1), int64(2), "a", "b", true,
		[]interface{}{int64(1), "a"}, []interface{}{[]interface{}{int64(1)}}, map[string]interface{}{"k": int64(1)}}
	ys := []interface{}{absent, nil, int64(1), "a"}
	out := []m.Doc{}
	n := 0
	for _, x := range xs {
		for _, y := range ys {
			n++
			d := m.Doc{"_id": ID(n)}
			if x != absent {
				d["x"] = m.Clone(x)
			}
			if y != absent {
				d["y"] = m.Clone(y)
			}
			out = append(out, d)
		}
	}
	return out
}

func AlgebraLeaves() []*m.Crit {
	fy, fz := m.FieldRef{Name: "y"}, m.FieldRef{Name: "zz"}
	out := []*m.Crit{}
	for _, op := range []string{"eq", "neq", "gt", "gte", "lt", "lte"} {
		for _, v := range []interface{}{nil, int64(1), "a", fy, "$y", fz} {
			out = append(out, m.Leaf(op, "x", v))
		}
	}
	out = append(out, m.In("x", int64(1), "a"), m.In("x", nil), m.In("x", fy), m.In("x", "$y", int64(2)), m.In("x"), m.In("x", fz),
		m.Contains("x", int64(1)), m.Contains("x", int64(1), "a"), m.Contains("x", fy), m.Contains("x"), m.Contains("x", "$y", int64(1)),
		// more operands than the array has elements: operands may repeat or be equal across numeric types / references
		m.Contains("x", int64(1), "a", int64(1)), m.Contains("x", int64(1), uint64(1), float64(1)), m.Contains("x", fy, "$y", int64(1)), m.Contains("x", "a", "a", "a", "a"),
		m.In("x", int64(1), int64(1), uint64(1)), m.In("x", "zz", nil, nil),
		m.Exists("x"), m.Exists("y"), m.NotExists("x"), m.Like("x", "^a"), m.Leaf("eq", "y", int64(1)),
		&m.Crit{Op: "isnil", Field: "x"}, &m.Crit{Op: "istrue", Field: "x"}, &m.Crit{Op: "isfalse", Field: "x"}, &m.Crit{Op: "isnilornotexists", Field: "x"}, &m.Crit{Op: "isnilornotexists", Field: "y"},
		m.Leaf("neq", "x", m.FieldRef{Name: "x"}), m.Leaf("neq", "y", "$x"))
	return out
}

// satisfyNormalized evaluates a model criteria on a document through clover: builder -> public normalisation
// visitor -> Satisfy.
func satisfyNormalized(c *m.Crit, d *document.Document) (res bool, pan interface{}) {
	defer func() {
		if p := recover(); p != nil {
			pan = p
		}
	}()
	cc := drv.Criteria(c)
	norm := cc.Accept(&clover.CriteriaNormalizeVisitor{})
	nc, ok := norm.(query.Criteria)
	if !ok {
		panic(fmt.Sprintf("normalisation returned %T", norm))
	}
	return nc.Satisfy(d), nil
}

// CritSweep: every criteria tree x every document, through FindAll and through Satisfy, against the model;
// the Boolean laws are additionally checked directly on clover's own answers.
func CritSweep(run *ev.Run, backend string, docs []m.Doc, trees []*m.Crit, laws []*m.Crit, indexes ...string) {
	in := drv.MustOpen(backend)
	defer in.Close()
	if err := in.DB.CreateCollection("a"); err != nil {
		panic(err)
	}
	for _, f := range indexes {
		// the planner's criteria visitors only run when the collection has an index (on any field)
		if err := in.DB.CreateIndex("a", f); err != nil {
			panic(err)
		}
	}
	backend = backend + "+idx" + strings.Join(indexes, "+")
	cdocs := make([]*document.Document, len(docs))
	byID := map[string]m.Doc{}
	for i, d := range docs {
		cdocs[i] = drv.Doc(d)
		byID[d["_id"].(string)] = d
	}
	if err := in.DB.Insert("a", cdocs...); err != nil {
		panic(err)
	}
	snap := in.Dump()
	in.Close()
	type wk struct{ in *drv.Inst }
	ws := map[int]*drv.Inst{}
	lock := make(chan struct{}, 1)
	lock <- struct{}{}
	get := func(w int) *drv.Inst {
		<-lock
		defer func() { lock <- struct{}{} }()
		if ws[w] == nil {
			ws[w] = drv.MustOpen(in.Backend)
			ws[w].Fresh(snap)
		}
		return ws[w]
	}
	defer func() {
		for _, i := range ws {
			i.Close()
		}
	}()
	viol := func(kind string, c *m.Crit, msg string) {
		run.Violation(kind+"|"+c.Skel(), fmt.Sprintf("%s: %s", c, msg), map[string]interface{}{"engine": "critsweep", "backend": backend, "criteria": c, "finding": msg})
	}
	// selection through FindAll, as a sorted id list
	selectIDs := func(in *drv.Inst, c *m.Crit) ([]string, error, interface{}) {
		ds, err, pan := drv.FindAllMaps(in, &m.Q{Coll: "a", Crit: c})
		ids := []string{}
		for _, d := range ds {
			id, _ := d["_id"].(string)
			ids = append(ids, id)
		}
		sort.Strings(ids)
		return ids, err, pan
	}
	ParallelFor(len(trees), 0, func(w, i int) {
		in := get(w)
		c := trees[i]
		want := (&m.Q{Coll: "a", Crit: c}).Select(byIDMap(byID))
		got, err, pan := selectIDs(in, c)
		run.Add("evaluations", int64(len(docs)))
		if pan != nil {
			viol("panic", c, fmt.Sprintf("FindAll panicked: %v", pan))
		} else if err != nil {
			viol("findall-error", c, fmt.Sprintf("FindAll failed: %v", err))
		} else if strings.Join(got, ",") != strings.Join(want, ",") {
			viol("findall", c, fmt.Sprintf("FindAll selects %s, the documented semantics select %s", describe(got, byID), describe(want, byID)))
		}
		run.Distinct("selections", strings.Join(want, ","))
		for di, d := range docs {
			res, pan := satisfyNormalized(c, cdocs[di])
			run.Add("evaluations", 1)
			if pan != nil {
				viol("satisfy-panic", c, fmt.Sprintf("Satisfy panicked on %s: %v", m.Canon(d), pan))
				break
			}
			if res != c.Eval(d) {
				viol("satisfy", c, fmt.Sprintf("Satisfy(%s) = %v, the documented semantics give %v", m.Canon(d), res, !res))
				break
			}
		}
		if i%997 == 0 {
			run.Sample(map[string]interface{}{"criteria": c.String(), "documents": len(docs), "selected": len(want)})
		}
	})
	// laws, directly on clover's answers
	in0 := get(0)
	sel := func(c *m.Crit) string {
		ids, err, pan := selectIDs(in0, c)
		run.Add("evaluations", int64(len(docs)))
		if err != nil || pan != nil {
			return fmt.Sprintf("error:%v/%v", err, pan)
		}
		return strings.Join(ids, ",")
	}
	all := sel(nil)
	complement := func(s string) string {
		in := map[string]bool{}
		for _, id := range strings.Split(s, ",") {
			in[id] = true
		}
		out := []string{}
		for _, id := range strings.Split(all, ",") {
			if !in[id] {
				out = append(out, id)
			}
		}
		return strings.Join(out, ",")
	}
	for _, a := range laws {
		sa := sel(a)
		if got := sel(m.Not(a)); got != complement(sa) {
			viol("law-not", a, "Not(c) does not select the complement of c")
		}
		if got := sel(m.Not(m.Not(a))); got != sa {
			viol("law-double-negation", a, "Not(Not(c)) selects differently from c")
		}
		for _, b := range laws {
			if sel(m.Not(m.And(a, b))) != sel(m.Or(m.Not(a), m.Not(b))) {
				viol("law-demorgan-and", m.And(a, b), "Not(a And b) differs from Not(a) Or Not(b)")
			}
			if sel(m.Not(m.Or(a, b))) != sel(m.And(m.Not(a), m.Not(b))) {
				viol("law-demorgan-or", m.Or(a, b), "Not(a Or b) differs from Not(a) And Not(b)")
			}
			run.Add("law_instances", 2)
		}
		if a.Op == "eq" {
			if sel(m.Leaf("neq", a.Field, a.Val)) != complement(sa) {
				viol("law-neq", a, "Neq is not the negation of Eq")
			}
		}
		if a.Op == "exists" {
			if sel(m.NotExists(a.Field)) != complement(sa) {
				viol("law-notexists", a, "NotExists is not the negation of Exists")
			}
		}
		if a.Op == "in" {
			var or *m.Crit
			for _, v := range a.Vals {
				// In == Or of (field equals v, absent treated as nil): Gte and Lte together express equality with absent as nil
				e := m.And(m.Leaf("gte", a.Field, v), m.Leaf("lte", a.Field, v))
				if or == nil {
					or = e
				} else {
					or = m.Or(or, e)
				}
			}
			if or != nil && sel(or) != sa {
				viol("law-in", a, "In differs from the disjunction of equalities (absent as nil)")
			}
		}
	}
}

func byIDMap(b map[string]m.Doc) map[string]map[string]interface{} {
	out := map[string]map[string]interface{}{}
	for k, v := range b {
		out[k] = v
	}
	return out
}

func describe(ids []string, byID map[string]m.Doc) string {
	if len(ids) > 6 {
		return fmt.Sprintf("%d documents", len(ids))
	}
	parts := []string{}
	for _, id := range ids {
		d := m.Clone(byID[id]).(m.Doc)
		delete(d, "_id")
		parts = append(parts, m.Canon(d))
	}
	return "[" + strings.Join(parts, " ") + "]"
}

// KindSweep: the same numeric literal supplied in every Go numeric kind must select the same documents.
func KindSweep(run *ev.Run, backend string, docs []m.Doc) {
	in := drv.MustOpen(backend)
	defer in.Close()
	in.DB.CreateCollection("a")
	cdocs := make([]*document.Document, len(docs))
	for i, d := range docs {
		cdocs[i] = drv.Doc(d)
	}
	if err := in.DB.Insert("a", cdocs...); err != nil {
		panic(err)
	}
	byID := map[string]map[string]interface{}{}
	for _, d := range docs {
		byID[d["_id"].(string)] = d
	}
	lits := []interface{}{int64(0), int64(1), int64(2), int64(-1), int64(100), float64(1.5),
		[]interface{}{int64(1), "a"}, []interface{}{[]interface{}{int64(1)}}} // numbers nested in array literals are converted too
	mk := func(op string, v interface{}, kind string) *m.Crit {
		switch op {
		case "in":
			c := m.In("x", v, "a")
			c.Kind = kind
			return c
		case "contains":
			c := m.Contains("x", v)
			c.Kind = kind
			return c
		}
		c := m.Leaf(op, "x", v)
		c.Kind = kind
		return c
	}
	// literals given as pointers, structs and typed maps/slices must be normalised like document values
	type lit struct {
		K int16 `clover:"k"`
	}
	one := int32(1)
	pone := &one
	for name, pair := range map[string][2]interface{}{
		"pointer to int32":        {&one, int64(1)},
		"pointer to pointer":      {&pone, int64(1)},
		"struct with tag":         {lit{K: 1}, map[string]interface{}{"k": int64(1)}},
		"pointer to struct":       {&lit{K: 1}, map[string]interface{}{"k": int64(1)}},
		"map[string]int8":         {map[string]int8{"k": 1}, map[string]interface{}{"k": int64(1)}},
		"[]interface{int,string}": {[]interface{}{uint8(1), "a"}, []interface{}{int64(1), "a"}},
		"[][]int16":               {[][]int16{{1}}, []interface{}{[]interface{}{int64(1)}}},
		"nil pointer":             {(*int)(nil), nil},
	} {
		for _, op := range []string{"eq", "gte", "in"} {
			var cc query.Criteria
			var base *m.Crit
			switch op {
			case "eq":
				cc, base = query.Field("x").Eq(pair[0]), m.Leaf("eq", "x", pair[1])
			case "gte":
				cc, base = query.Field("x").GtEq(pair[0]), m.Leaf("gte", "x", pair[1])
			default:
				cc, base = query.Field("x").In(pair[0], "zz"), m.In("x", pair[1], "zz")
			}
			want := strings.Join((&m.Q{Coll: "a", Crit: base}).Select(byID), ",")
			ids := []string{}
			var err error
			pan := safely(func() {
				var ds []*document.Document
				ds, err = in.DB.FindAll(query.NewQuery("a").Where(cc))
				for _, d := range ds {
					ids = append(ids, d.ObjectId())
				}
			})
			sort.Strings(ids)
			run.Add("evaluations", 1)
			run.Distinct("kind_cases", op+name)
			if pan != nil || err != nil {
				run.Violation("literal-form-error|"+op+"|"+name, fmt.Sprintf("x %s <%s>: err=%v panic=%v", op, name, err, pan), nil)
			} else if got := strings.Join(ids, ","); got != want {
				run.Violation("literal-form|"+op+"|"+name, fmt.Sprintf("x %s <%s> selects %d documents, the canonical literal %s selects %d", op, name, len(ids), m.Canon(pair[1]), len(strings.Split(want, ","))), nil)
			}
		}
	}
	for _, op := range []string{"eq", "neq", "gt", "gte", "lt", "lte", "in", "contains"} {
		for _, v := range lits {
			base := mk(op, v, "")
			want := strings.Join((&m.Q{Coll: "a", Crit: base}).Select(byID), ",")
			for _, kind := range drv.NumericKinds {
				if m.Canon(drv.AsKind(v, kind)) == m.Canon(v) && kind != "int64" && kind != "float64" {
					continue // literal not representable in this kind
				}
				c := mk(op, v, kind)
				ds, err, pan := drv.FindAllMaps(in, &m.Q{Coll: "a", Crit: c})
				run.Add("evaluations", 1)
				run.Distinct("kind_cases", op+kind+m.Canon(v))
				ids := []string{}
				for _, d := range ds {
					ids = append(ids, d["_id"].(string))
				}
				sort.Strings(ids)
				if pan != nil || err != nil {
					run.Violation("kind-error|"+op+"|"+kind, fmt.Sprintf("%s with the literal as %s: err=%v panic=%v", base, kind, err, pan), map[string]interface{}{"criteria": c})
				} else if got := strings.Join(ids, ","); got != want {
					run.Violation("kind|"+op+"|"+kind, fmt.Sprintf("%s selects %d documents when the literal is a %s, %d expected", base, len(ids), kind, len(strings.Split(want, ","))), map[string]interface{}{"criteria": c})
				}
				for di := range docs {
					res, pan := satisfyNormalized(c, cdocs[di])
					run.Add("evaluations", 1)
					if pan != nil || res != base.Eval(docs[di]) {
						run.Violation("kind-satisfy|"+op+"|"+kind, fmt.Sprintf("%s with the literal as %s on %s: got %v panic=%v", base, kind, m.Canon(docs[di]), res, pan), map[string]interface{}{"criteria": c})
						break
					}
				}
			}
		}
	}
}
