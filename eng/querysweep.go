package eng

import (
	"fmt"
	"sort"
	"strings"

	"verif/drv"
	"verif/ev"
	"verif/m"
	"verif/vstore"
)

// Twin: one collection of the sweep database. All twins hold the same documents; they differ in their indexes
// and in when the indexes were created relative to the writes.
type Twin struct {
	Name    string
	Indexes []string
	Order   int // 0: before the inserts, 1: after the inserts, 2: after the updates, 3: after the deletes
}

func (t Twin) String() string {
	return fmt.Sprintf("%s{idx=%s,order=%d}", t.Name, strings.Join(t.Indexes, "+"), t.Order)
}

// Shape: the sort / window part of a query.
type Shape struct {
	Sort     []m.SortOpt
	SortDef  bool
	SkipSet  bool
	Skip     int
	LimitSet bool
	Limit    int
}

func (s Shape) Apply(coll string, c *m.Crit) *m.Q {
	return &m.Q{Coll: coll, Crit: c, Sort: s.Sort, SortDef: s.SortDef, SkipSet: s.SkipSet, Skip: s.Skip, LimitSet: s.LimitSet, Limit: s.Limit}
}

func (s Shape) String() string {
	q := s.Apply("", nil)
	return strings.TrimPrefix(q.String(), " where <none>")
}

type QSConfig struct {
	Name     string
	Backends []string
	Docs     []m.Doc // the final content of every twin
	Twins    []Twin
	Crits    []*m.Crit
	Shapes   []Shape
	Reads    bool // FindAll + Count on every twin
	Writes   bool // Update / Delete on a restored snapshot per task
	// Tag routing: which finding tags are violations of the property being checked.
	Own map[string]bool
}

// DefaultDataset: boundary-rich documents: field x absent / nil / duplicate numbers of different Go types /
// float / strings related by prefix / bool / array / object; y misaligned with x; xy (name with x as a prefix);
// nested n.a.
func DefaultDataset() []m.Doc {
	return []m.Doc{
		docWith(ID(1)),
		docWith(ID(2), "x", nil, "y", int64(1)),
		docWith(ID(3), "x", int64(1), "y", int64(2), "xy", int64(1), "n.a", int64(1)),
		docWith(ID(4), "x", uint64(1), "y", int64(0), "xy", "q"),
		docWith(ID(5), "x", int64(2), "y", int64(1), "n.a", int64(2)),
		docWith(ID(6), "x", float64(2.5), "y", nil),
		docWith(ID(7), "x", "a", "y", "a", "n", int64(7)),
		docWith(ID(8), "x", "ab", "xy", int64(0)),
		docWith(ID(9), "x", true, "y", int64(4)),
		docWith(ID(10), "x", []interface{}{int64(1)}, "y", []interface{}{int64(1), "a"}),
		docWith(ID(11), "x", map[string]interface{}{"k": int64(1)}, "n.a", "s"),
		docWith(ID(12), "x", int64(4), "y", int64(4), "n.a", nil),
		docWith(ID(13), "x", int64(-3), "y", float64(2.5), "xy", int64(2)),
	}
}

// buildTwin creates one twin through a history insert -> update -> delete, creating its indexes at
// position t.Order of that history. The final content equals docs.
func buildTwin(in *drv.Inst, t Twin, docs []m.Doc) error {
	db := in.DB
	mk := func() error {
		for _, f := range t.Indexes {
			if err := db.CreateIndex(t.Name, f); err != nil {
				return fmt.Errorf("CreateIndex(%s,%s): %v", t.Name, f, err)
			}
		}
		return nil
	}
	if err := db.CreateCollection(t.Name); err != nil {
		return err
	}
	if t.Order == 0 {
		if err := mk(); err != nil {
			return err
		}
	}
	// initial content: every third document starts with different field values, plus one extra document
	for i, d := range docs {
		init := m.Clone(d).(m.Doc)
		if i%3 == 2 {
			init["x"] = int64(100 + i)
			init["y"] = "old"
			init["xy"] = nil
			init["n"] = map[string]interface{}{"a": int64(50 + i)}
		}
		if err := db.Insert(t.Name, drv.Doc(init)); err != nil {
			return fmt.Errorf("Insert: %v", err)
		}
	}
	extra := docWith(ID(999), "x", float64(1.5), "y", int64(3), "xy", "e", "n.a", int64(9))
	if err := db.Insert(t.Name, drv.Doc(extra)); err != nil {
		return err
	}
	if t.Order == 1 {
		if err := mk(); err != nil {
			return err
		}
	}
	for i, d := range docs {
		if i%3 == 2 {
			if err := db.ReplaceById(t.Name, d["_id"].(string), drv.Doc(d)); err != nil {
				return fmt.Errorf("ReplaceById: %v", err)
			}
		}
	}
	if t.Order == 2 {
		if err := mk(); err != nil {
			return err
		}
	}
	if err := db.DeleteById(t.Name, ID(999)); err != nil {
		return err
	}
	// one document is deleted by id and inserted again under the same id with its final content
	if len(docs) > 4 {
		d := docs[4]
		old := m.Clone(d).(m.Doc)
		old["x"], old["y"], old["xy"], old["n"] = int64(-77), "gone", "gone", map[string]interface{}{"a": int64(-77)}
		id := d["_id"].(string)
		if err := db.ReplaceById(t.Name, id, drv.Doc(old)); err != nil {
			return fmt.Errorf("ReplaceById before delete: %v", err)
		}
		if err := db.DeleteById(t.Name, id); err != nil {
			return err
		}
		if err := db.Insert(t.Name, drv.Doc(d)); err != nil {
			return fmt.Errorf("re-insert: %v", err)
		}
	}
	if t.Order == 3 {
		if err := mk(); err != nil {
			return err
		}
	}
	return nil
}

func modelFor(cfg *QSConfig) *m.DB {
	model := m.NewDB()
	for _, t := range cfg.Twins {
		c := &m.Coll{Docs: map[string]m.Doc{}, Indexes: map[string]bool{}}
		for _, d := range cfg.Docs {
			c.Docs[d["_id"].(string)] = m.Clone(d).(m.Doc)
		}
		for _, f := range t.Indexes {
			c.Indexes[f] = true
		}
		model.Colls[t.Name] = c
	}
	return model
}

// resultSig summarises a FindAll result for twin comparison: the id set when unsorted and unwindowed, the
// sort-key sequence when sorted, the count otherwise.
func resultSig(q *m.Q, docs []m.Doc) string {
	if opts := q.EffSort(); len(opts) > 0 {
		parts := make([]string, len(docs))
		for i, d := range docs {
			parts[i] = m.OrderCanon(m.SortKey(d, opts))
		}
		return "keys:" + strings.Join(parts, ";")
	}
	if q.EffSkip() == 0 && q.EffLimit() < 0 {
		ids := make([]string, len(docs))
		for i, d := range docs {
			ids[i], _ = d["_id"].(string)
		}
		sort.Strings(ids)
		return "ids:" + strings.Join(ids, ",")
	}
	return fmt.Sprintf("count:%d", len(docs))
}

type qsTask struct {
	crit  *m.Crit
	shape Shape
}

// QuerySweep runs every (criteria, shape) on every twin of every backend.
func QuerySweep(cfg *QSConfig, run *ev.Run) {
	model := modelFor(cfg)
	tasks := []qsTask{}
	for _, c := range cfg.Crits {
		for _, s := range cfg.Shapes {
			tasks = append(tasks, qsTask{c, s})
		}
	}
	run.Set("criteria_trees", len(cfg.Crits))
	run.Set("sort_window_shapes", len(cfg.Shapes))
	run.Set("twins", len(cfg.Twins))
	for _, backend := range cfg.Backends {
		// build once, dump, restore into each worker's instance
		b := drv.MustOpen(backend)
		var buildErr error
		for _, t := range cfg.Twins {
			if err := buildTwin(b, t, cfg.Docs); err != nil {
				buildErr = fmt.Errorf("building %s on %s: %v", t, backend, err)
				break
			}
		}
		if buildErr != nil {
			run.Violation("build|"+backend, buildErr.Error(), map[string]interface{}{"backend": backend})
			b.Close()
			continue
		}
		snap := b.Dump()
		b.Close()
		insts := map[int]*drv.Inst{}
		var instMu = make(chan struct{}, 1)
		instMu <- struct{}{}
		getInst := func(w int) *drv.Inst {
			<-instMu
			in := insts[w]
			instMu <- struct{}{}
			if in == nil {
				in = drv.MustOpen(backend)
				if _, err := in.Fresh(snap); err != nil {
					panic(err)
				}
				<-instMu
				insts[w] = in
				instMu <- struct{}{}
			}
			return in
		}
		ParallelFor(len(tasks), 0, func(w, i int) {
			in := getInst(w)
			t := tasks[i]
			if cfg.Reads {
				qsRead(cfg, run, in, backend, model, t)
			}
			if cfg.Writes {
				qsWrite(cfg, run, in, backend, model, t, snap)
			}
		})
		for _, in := range insts {
			in.Close()
		}
	}
}

func (cfg *QSConfig) report(run *ev.Run, backend string, tw Twin, q *m.Q, kind string, f Finding, extra map[string]interface{}) {
	if !cfg.Own[f.Tag] {
		run.Blocked(f.Tag)
		return
	}
	sig := fmt.Sprintf("%s|%s|%s|idx=%s|%s|%s", f.Tag, kind, backend, strings.Join(tw.Indexes, "+"), q.Crit.Skel(), q.ShapeClass())
	w := map[string]interface{}{"engine": "querysweep", "dataset": cfg.Name, "backend": backend, "twin": tw, "op": kind, "query": q, "finding": f.Msg}
	for k, v := range extra {
		w[k] = v
	}
	run.Violation(sig, fmt.Sprintf("[%s %s %s] %s", backend, tw, kind, f.Msg), w)
}

func qsRead(cfg *QSConfig, run *ev.Run, in *drv.Inst, backend string, model *m.DB, t qsTask) {
	var baseSig string
	var baseOK bool
	var baseCount int
	for ti, tw := range cfg.Twins {
		q := t.shape.Apply(tw.Name, t.crit)
		in.V.ResetCounters()
		r := drv.Exec(in, m.Op{K: "findAll", Q: q})
		run.Add("evaluations", 1)
		usedIdx, rev := UsedIndex(in)
		if usedIdx {
			run.Add("executions_using_index_scan", 1)
			if rev {
				run.Add("executions_using_reverse_index_scan", 1)
			}
		}
		fs := []Finding{}
		if r.Panic != nil {
			fs = append(fs, Finding{Tag: "panic", Msg: fmt.Sprintf("FindAll panicked: %v", r.Panic)})
		}
		if r.Leak != "" {
			fs = append(fs, Finding{Tag: "leak", Msg: r.Leak})
			in.V.ForgetLeaks()
		}
		ok := false
		sig := ""
		if r.Panic == nil {
			if r.Err != nil {
				fs = append(fs, Finding{Tag: "find", Msg: fmt.Sprintf("FindAll returned error %v", r.Err)})
				sig = "error"
			} else {
				if err := model.CheckFind(q, r.Docs); err != nil {
					fs = append(fs, Finding{Tag: "find", Msg: err.Error()})
				} else {
					ok = true
				}
				sig = resultSig(q, r.Docs)
			}
		} else {
			sig = "panic"
		}
		run.Distinct("results", sig)
		if ti == 0 {
			baseSig, baseOK = sig, ok
		} else if sig != baseSig {
			fs = append(fs, Finding{Tag: "twin-index", Msg: fmt.Sprintf("result differs from the twin without indexes: %s vs %s", trunc(sig), trunc(baseSig))})
		}
		_ = baseOK
		// Count must select the same number (C02 names Count; C09 relates it to FindAll)
		rc := drv.Exec(in, m.Op{K: "count", Q: q})
		run.Add("evaluations", 1)
		if rc.Panic != nil {
			fs = append(fs, Finding{Tag: "panic", Msg: fmt.Sprintf("Count panicked: %v", rc.Panic)})
		} else if rc.Err == nil && r.Err == nil && r.Panic == nil && rc.N != len(r.Docs) {
			fs = append(fs, Finding{Tag: "derived", Msg: fmt.Sprintf("Count = %d but FindAll returned %d documents", rc.N, len(r.Docs))})
		}
		if ti == 0 {
			baseCount = rc.N
		} else if rc.Panic == nil && rc.Err == nil && rc.N != baseCount {
			fs = append(fs, Finding{Tag: "twin-index", Msg: fmt.Sprintf("Count = %d, the twin without indexes counts %d", rc.N, baseCount)})
		}
		for _, f := range fs {
			cfg.report(run, backend, tw, q, "findAll", f, nil)
		}
	}
	run.Sample(map[string]interface{}{"query": t.shape.Apply("<twin>", t.crit).String(), "on": fmt.Sprintf("%d twins", len(cfg.Twins))})
}

func trunc(s string) string {
	if len(s) > 300 {
		return s[:300] + "..."
	}
	return s
}

func qsWrite(cfg *QSConfig, run *ev.Run, in *drv.Inst, backend string, model *m.DB, t qsTask, snap []vstore.KV) {
	for _, kind := range []string{"update", "updateFunc", "delete"} {
		if _, err := in.Fresh(snap); err != nil {
			panic(err)
		}
		cur := model
		baseClean := true
		for ti, tw := range cfg.Twins {
			q := t.shape.Apply(tw.Name, t.crit)
			op := m.Op{K: kind, Q: q}
			switch kind {
			case "update":
				op.Set = map[string]interface{}{"u": int64(1), "y": "upd", "n.a": int64(42)}
			case "updateFunc":
				op.Upd = &m.Updater{Set: map[string]interface{}{"u": int64(2), "x": int64(7)}, Style: "inplace"}
			}
			res, next, fs := drv.Step(in, cur, op)
			run.Add("evaluations", 1)
			if res.Panic == nil {
				// the collection content must now equal the model's
				all := &m.Q{Coll: tw.Name}
				docs, err, pan := drv.FindAllMaps(in, all)
				if pan != nil {
					fs = append(fs, Finding{Tag: "panic", Msg: fmt.Sprintf("FindAll after %s panicked: %v", kind, pan)})
				} else if err != nil {
					fs = append(fs, Finding{Tag: "state", Msg: fmt.Sprintf("FindAll after %s failed: %v", kind, err)})
				} else if err := next.CheckFind(all, docs); err != nil {
					fs = append(fs, Finding{Tag: "state", Msg: fmt.Sprintf("after %s: %v", kind, err)})
				}
				run.Distinct("results", kind+":"+resultSig(all, docs))
				// and every index of the twin must still answer like a scan (a stale or missing entry shows here)
				for _, f := range tw.Indexes {
					iq := &m.Q{Coll: tw.Name, Sort: []m.SortOpt{{Field: f, Dir: 1}}}
					idocs, ierr, ipan := drv.FindAllMaps(in, iq)
					if ipan != nil {
						fs = append(fs, Finding{Tag: "panic", Msg: fmt.Sprintf("sorted FindAll after %s panicked: %v", kind, ipan)})
					} else if ierr != nil {
						fs = append(fs, Finding{Tag: "state", Msg: fmt.Sprintf("after %s, a query through the index on %s failed: %v", kind, f, ierr)})
					} else if err := next.CheckFind(iq, idocs); err != nil {
						fs = append(fs, Finding{Tag: "state", Msg: fmt.Sprintf("after %s, a query through the index on %s: %v", kind, f, err)})
					}
				}
			}
			cur = next
			if ti == 0 && len(fs) > 0 {
				baseClean = false
			}
			for _, f := range fs {
				// a wrong selection by a bulk write on an indexed twin only is an index-transparency failure too
				if ti > 0 && baseClean && (f.Tag == "state" || f.Tag == "apply" || f.Tag == "err") {
					cfg.report(run, backend, tw, q, kind, Finding{Tag: "twin-index", Msg: f.Msg}, nil)
				}
				cfg.report(run, backend, tw, q, kind, f, nil)
			}
			if res.Leak != "" {
				in.V.ForgetLeaks()
			}
		}
	}
}
