package eng

import (
	"bytes"
	"errors"
	"fmt"
	"math"
	"sort"
	"strings"
	"sync"
	"time"

	"github.com/ostafen/clover/v2/index"
	"github.com/ostafen/clover/v2/store"
	"verif/drv"
	"verif/ev"
	"verif/m"
	"verif/vstore"
)

var rangeW = []interface{}{nil, int64(0), int64(1), float64(1.5), int64(2), "", "a", "ab", true, []interface{}{int64(1)}}

// rangeByteCorners: values whose order-preserving key encoding ends in 0xFF / 0x00 / 0x01 or that sit at the
// extremes of their type, plus prefix-related strings with 0x00 / 0xFF bytes.
var rangeByteCorners = []interface{}{nil, float64(0.9999999999999999), float64(1), math.Nextafter(1, 2), float64(9007199254740991), float64(-0.9999999999999999), math.MaxFloat64, -math.MaxFloat64,
	int64(255), int64(256), "a", "a\x00", "a\xff", "a\xff\xff", "b", time.Unix(0, 255).UTC(), time.Unix(0, 256).UTC(), time.Unix(0, 0xffff).UTC(), []interface{}{float64(0.9999999999999999)}, false}

type idxEntry struct {
	v  interface{}
	id string
}

// indexContents: every multiset over W with at most 2 ids per value and at most maxEntries entries.
func indexContents(maxEntries int) [][]idxEntry { return indexContentsOver(rangeW, maxEntries) }

func indexContentsOver(rangeW []interface{}, maxEntries int) [][]idxEntry {
	out := [][]idxEntry{}
	var rec func(i int, cur []idxEntry)
	rec = func(i int, cur []idxEntry) {
		if i == len(rangeW) {
			out = append(out, append([]idxEntry{}, cur...))
			return
		}
		rec(i+1, cur)
		if len(cur)+1 <= maxEntries {
			rec(i+1, append(cur, idxEntry{rangeW[i], ID(1)}))
		}
		if len(cur)+2 <= maxEntries {
			rec(i+1, append(cur, idxEntry{rangeW[i], ID(1)}, idxEntry{rangeW[i], ID(2)}))
		}
	}
	rec(0, nil)
	return out
}

type refRange struct {
	Start, End interface{}
	SI, EI     bool
}

func (r refRange) String() string {
	l, rr := "(", ")"
	if r.SI {
		l = "["
	}
	if r.EI {
		rr = "]"
	}
	return l + m.Canon(r.Start) + " .. " + m.Canon(r.End) + rr
}

func (r refRange) isNilOnly() bool { return r.Start == nil && r.End == nil && r.SI && r.EI }

// contains: reference meaning of a range: a nil bound is an open end, except for the nil-only range.
func (r refRange) contains(v interface{}) bool {
	if r.isNilOnly() {
		return v == nil
	}
	if r.Start != nil {
		c := m.Compare(v, r.Start)
		if c < 0 || (c == 0 && !r.SI) {
			return false
		}
	}
	if r.End != nil {
		c := m.Compare(v, r.End)
		if c > 0 || (c == 0 && !r.EI) {
			return false
		}
	}
	return true
}

func (r refRange) clover() *index.Range {
	return &index.Range{Start: m.Clone(r.Start), End: m.Clone(r.End), StartIncluded: r.SI, EndIncluded: r.EI}
}

func allRanges() []refRange { return allRangesOver(rangeW) }

func allRangesOver(rangeW []interface{}) []refRange {
	out := []refRange{{nil, nil, true, true}}
	for _, s := range rangeW {
		for _, e := range rangeW {
			if s == nil && e == nil {
				continue
			}
			for _, si := range []bool{false, true} {
				for _, ei := range []bool{false, true} {
					if (s == nil && si) || (e == nil && ei) {
						continue // an open end is spelled as a nil bound with its flag off; nil+included is only defined in the nil-only range
					}
					out = append(out, refRange{s, e, si, ei})
				}
			}
		}
	}
	return out
}

var errStop = errors.New("stop requested by the consumer")

// RangeSweep: all index contents x all ranges x both directions x every stop position, on a real store (C17).
func RangeSweep(run *ev.Run, backend string, maxEntries int) {
	rangeSweepOver(run, backend, "base", rangeW, maxEntries)
}

// RangeSweepByteCorners: the same sweep over values chosen for their key bytes.
func RangeSweepByteCorners(run *ev.Run, backend string, maxEntries int) {
	rangeSweepOver(run, backend, "byte-corners", rangeByteCorners, maxEntries)
}

func rangeSweepOver(run *ev.Run, backend, set string, values []interface{}, maxEntries int) {
	contents := indexContentsOver(values, maxEntries)
	ranges := allRangesOver(values)
	run.Set(set+"_index_contents", len(contents))
	run.Set(set+"_ranges", len(ranges))
	var mu sync.Mutex
	stores := map[int]store.Store{}
	dirs := map[int]string{}
	get := func(w int) store.Store {
		mu.Lock()
		defer mu.Unlock()
		if stores[w] == nil {
			dir := ""
			if backend != drv.Badger {
				dir = drv.NewScratchDir()
			}
			st, err := drv.OpenRaw(backend, dir)
			if err != nil {
				panic(err)
			}
			stores[w], dirs[w] = st, dir
		}
		return stores[w]
	}
	defer func() {
		for _, s := range stores {
			s.Close()
		}
	}()
	viol := func(kind string, content []idxEntry, r *refRange, reverse bool, msg string) {
		desc := []string{}
		for _, e := range content {
			desc = append(desc, m.Canon(e.v)+"@"+e.id[len(e.id)-1:])
		}
		rs := "full iteration"
		if r != nil {
			rs = r.String()
		}
		sig := fmt.Sprintf("%s|%s|rev=%v|%s", kind, backend, reverse, rangeClass(r))
		run.Violation(sig, fmt.Sprintf("[%s] index {%s}, range %s, reverse=%v: %s", backend, strings.Join(desc, " "), rs, reverse, msg),
			map[string]interface{}{"engine": "rangesweep", "backend": backend, "entries": desc, "range": rs, "reverse": reverse, "finding": msg})
	}
	ParallelFor(len(contents), 0, func(w, ci int) {
		st := get(w)
		content := contents[ci]
		if err := vstore.Restore(st, nil); err != nil {
			panic(err)
		}
		// populate: the index under test plus decoys around it (other fields incl. a name with x as prefix, another collection, documents)
		tx, _ := st.Begin(true)
		idx := index.CreateIndex("c", "x", index.SingleField, tx)
		for _, e := range content {
			if err := idx.Add(e.id, m.Clone(e.v), -1); err != nil {
				viol("add-error", content, nil, false, fmt.Sprintf("Add(%s) failed: %v", m.Canon(e.v), err))
			}
		}
		for _, decoy := range [][2]string{{"c", "xy"}, {"c", "w"}, {"c", "x.y"}, {"cc", "x"}, {"b", "x"}} {
			d := index.CreateIndex(decoy[0], decoy[1], index.SingleField, tx)
			d.Add(ID(7), int64(1), -1)
			d.Add(ID(8), "a", -1)
			d.Add(ID(9), nil, -1)
		}
		tx.Set([]byte("c:c;d:"+ID(1)), []byte("doc"))
		tx.Set([]byte("coll:c"), []byte("{}"))
		if err := tx.Commit(); err != nil {
			panic(err)
		}
		rtx, _ := st.Begin(false)
		defer rtx.Rollback()
		ridx := index.CreateIndex("c", "x", index.SingleField, rtx).(index.RangeIndex)
		valOf := map[string][]interface{}{}
		for _, e := range content {
			valOf[e.id] = append(valOf[e.id], e.v)
		}
		checkSeq := func(r *refRange, reverse bool, stop int, got []string, retErr error, calls int, pan interface{}) {
			// expected multiset
			want := []idxEntry{}
			for _, e := range content {
				if r == nil || r.contains(e.v) {
					want = append(want, e)
				}
			}
			sort.SliceStable(want, func(i, j int) bool {
				c := m.Compare(want[i].v, want[j].v)
				if reverse {
					return c > 0
				}
				return c < 0
			})
			if pan != nil {
				viol("panic", content, r, reverse, fmt.Sprintf("panicked: %v", pan))
				return
			}
			n := len(want)
			if stop > 0 && stop <= n {
				if calls != stop {
					viol("stop", content, r, reverse, fmt.Sprintf("consumer asked to stop at call %d but was called %d times", stop, calls))
					return
				}
				if retErr == nil || !errors.Is(retErr, errStop) {
					viol("stop-error", content, r, reverse, fmt.Sprintf("the consumer's error was not returned (got %v)", retErr))
					return
				}
				n = stop
			} else if retErr != nil {
				viol("error", content, r, reverse, fmt.Sprintf("returned error %v", retErr))
				return
			}
			if len(got) != n {
				viol("count", content, r, reverse, fmt.Sprintf("yielded %d ids %v, expected %d", len(got), shortIDs(got), n))
				return
			}
			// the yielded prefix must follow value order; ties may come in any order
			used := map[int]bool{}
			for i, id := range got {
				found := false
				for j, e := range want {
					if !used[j] && e.id == id && m.Compare(e.v, want[i].v) == 0 {
						used[j] = true
						found = true
						break
					}
				}
				if !found {
					viol("order", content, r, reverse, fmt.Sprintf("position %d yielded id %s, expected an entry with value %s (yielded %v)", i, id[len(id)-1:], m.Canon(want[i].v), shortIDs(got)))
					return
				}
			}
		}
		runRange := func(r *refRange, reverse bool, stop int) {
			got := []string{}
			calls := 0
			var err error
			var pan interface{}
			func() {
				defer func() {
					if p := recover(); p != nil {
						pan = p
					}
				}()
				cb := func(id string) error {
					calls++
					got = append(got, id)
					if stop > 0 && calls >= stop {
						return errStop
					}
					return nil
				}
				if r == nil {
					err = ridx.Iterate(reverse, cb)
				} else {
					err = ridx.IterateRange(r.clover(), reverse, cb)
				}
			}()
			run.Add("evaluations", 1)
			checkSeq(r, reverse, stop, got, err, calls, pan)
		}
		for _, reverse := range []bool{false, true} {
			for stop := 0; stop <= len(content)+1; stop++ {
				runRange(nil, reverse, stop)
			}
			for ri := range ranges {
				r := &ranges[ri]
				// number of matching entries bounds the useful stop positions
				nm := 0
				for _, e := range content {
					if r.contains(e.v) {
						nm++
					}
				}
				for stop := 0; stop <= nm; stop++ {
					runRange(r, reverse, stop)
				}
			}
		}
		run.Distinct("contents", set+fmt.Sprint(ci))
		if ci%97 == 0 {
			run.Sample(map[string]interface{}{"backend": backend, "index_entries": len(content), "ranges": len(ranges), "directions": 2})
		}
	})
}

func shortIDs(ids []string) []string {
	out := make([]string, len(ids))
	for i, id := range ids {
		out[i] = id[len(id)-1:]
	}
	return out
}

func rangeClass(r *refRange) string {
	if r == nil {
		return "iterate"
	}
	if r.isNilOnly() {
		return "nil-only"
	}
	return fmt.Sprintf("%s%s..%s%s", map[bool]string{true: "[", false: "("}[r.SI], typeTagOf(r.Start), typeTagOf(r.End), map[bool]string{true: "]", false: ")"}[r.EI])
}

func typeTagOf(v interface{}) string {
	if v == nil {
		return "open"
	}
	return typeName(v)
}

// RangeAlgebra: Intersect never excludes a value contained in both ranges; IsEmpty only if no value can lie in it.
func RangeAlgebra(run *ev.Run) {
	// witness set: every bound plus values strictly between / around them
	wit := []interface{}{nil, int64(-1), int64(0), float64(0.5), int64(1), float64(1.25), float64(1.5), float64(1.75), int64(2), int64(3),
		"", "\x00", "a", "a\x00", "ab", "b", map[string]interface{}{}, []interface{}{}, []interface{}{int64(0)}, []interface{}{int64(1)}, []interface{}{int64(1), int64(0)}, []interface{}{int64(2)}, false, true}
	ranges := allRanges()
	for i := range ranges {
		r := ranges[i]
		var empty bool
		pan := safely(func() { empty = r.clover().IsEmpty() })
		run.Add("evaluations", 1)
		if pan != nil {
			run.Violation("isempty-panic|"+rangeClass(&r), fmt.Sprintf("IsEmpty(%s) panicked: %v", r, pan), nil)
			continue
		}
		if empty {
			for _, w := range wit {
				if r.contains(w) {
					run.Violation("isempty|"+rangeClass(&r), fmt.Sprintf("range %s is reported empty but contains %s", r, m.Canon(w)), map[string]interface{}{"range": r.String()})
					break
				}
			}
		}
	}
	for i := range ranges {
		for j := range ranges {
			a, b := ranges[i], ranges[j]
			var res *index.Range
			pan := safely(func() { res = a.clover().Intersect(b.clover()) })
			run.Add("evaluations", 1)
			run.Distinct("range_pairs", fmt.Sprintf("%d,%d", i, j))
			if pan != nil {
				run.Violation("intersect-panic|"+rangeClass(&a)+"|"+rangeClass(&b), fmt.Sprintf("Intersect(%s, %s) panicked: %v", a, b, pan), nil)
				continue
			}
			rr := refRange{res.Start, res.End, res.StartIncluded, res.EndIncluded}
			var empty bool
			safely(func() { empty = res.IsEmpty() })
			for _, w := range wit {
				if a.contains(w) && b.contains(w) && (!rr.contains(w) || empty) {
					run.Violation("intersect|"+rangeClass(&a)+"|"+rangeClass(&b), fmt.Sprintf("%s and %s both contain %s but their intersection %s (empty=%v) does not", a, b, m.Canon(w), rr, empty), map[string]interface{}{"a": a.String(), "b": b.String()})
					break
				}
			}
		}
	}
}

func safely(f func()) (pan interface{}) {
	defer func() {
		if p := recover(); p != nil {
			pan = p
		}
	}()
	f()
	return nil
}

// ---- store-level cursor contract (C15) ----

var cursorKeys = []string{"b", "bb", "c", "c\x00", "d", "e"}
var cursorTargets = []string{"", "a", "b", "ba", "bb", "bc", "c", "c\x00", "c\x00\x00", "cz", "d", "dd", "e", "f", "\xff"}

func cursorValue(k string) []byte {
	if k == "bb" || k == "d" {
		return nil // empty value (how clover stores index entries)
	}
	return []byte("v" + k)
}

// CursorSweep: every committed key subset S0 x every in-transaction target subset S1 (reached by Set/Delete
// before the cursor is created) x every seek target x both directions, on a store adapter.
func CursorSweep(run *ev.Run, backend string, withWriteTx bool) {
	dir := ""
	if backend != drv.Badger {
		dir = drv.NewScratchDir()
	}
	st, err := drv.OpenRaw(backend, dir)
	if err != nil {
		panic(err)
	}
	defer st.Close()
	n := len(cursorKeys)
	subset := func(mask int) []string {
		out := []string{}
		for i, k := range cursorKeys {
			if mask&(1<<i) != 0 {
				out = append(out, k)
			}
		}
		return out
	}
	viol := func(kind string, s0, s1 []string, target string, forward bool, msg string) {
		mode := "read-tx"
		if s1 != nil {
			mode = "write-tx"
		}
		tclass := "absent"
		for _, k := range cursorKeys {
			if k == target {
				tclass = "present"
			}
		}
		if target < cursorKeys[0] {
			tclass = "before-first"
		}
		if target > cursorKeys[n-1] {
			tclass = "after-last"
		}
		run.Violation(fmt.Sprintf("%s|%s|%s|forward=%v|target-%s", kind, backend, mode, forward, tclass),
			fmt.Sprintf("[%s %s] committed keys %q, keys after the transaction's own writes %q, seek %q forward=%v: %s", backend, mode, s0, s1, target, forward, msg),
			map[string]interface{}{"engine": "cursorsweep", "backend": backend, "committed": s0, "in_tx": s1, "target": target, "forward": forward, "finding": msg})
	}
	walk := func(tx store.Tx, visible []string, s0, s1 []string) {
		// point lookups: a present key gives its value (empty values included), an absent key gives nil without an error
		vis := map[string]bool{}
		for _, k := range visible {
			vis[k] = true
		}
		for _, k := range append(append([]string{}, cursorKeys...), "a", "ba", "f") {
			var v []byte
			var err error
			pan := safely(func() { v, err = tx.Get([]byte(k)) })
			run.Add("evaluations", 1)
			switch {
			case pan != nil || err != nil:
				viol("get-error", s0, s1, k, true, fmt.Sprintf("Get(%q): err=%v panic=%v", k, err, pan))
			case vis[k] && (v == nil && len(cursorValue(k)) > 0 || !bytes.Equal(v, cursorValue(k))):
				viol("get", s0, s1, k, true, fmt.Sprintf("Get(%q) = %q, expected %q", k, v, cursorValue(k)))
			case !vis[k] && v != nil:
				viol("get", s0, s1, k, true, fmt.Sprintf("Get(%q) = %q for a key that is not stored", k, v))
			}
		}
		for _, target := range cursorTargets {
			for _, forward := range []bool{true, false} {
				if target == "" && !forward {
					continue // the empty string is not a storable key on either store; a reverse seek to it has no defined meaning
				}
				want := []string{}
				if forward {
					for _, k := range visible {
						if k >= target {
							want = append(want, k)
						}
					}
				} else {
					for i := len(visible) - 1; i >= 0; i-- {
						if visible[i] <= target {
							want = append(want, visible[i])
						}
					}
				}
				got := []string{}
				var verr string
				pan := safely(func() {
					cur, err := tx.Cursor(forward)
					if err != nil {
						verr = "Cursor: " + err.Error()
						return
					}
					defer cur.Close()
					if err := cur.Seek([]byte(target)); err != nil {
						verr = "Seek: " + err.Error()
						return
					}
					for steps := 0; cur.Valid() && steps < 20; steps++ {
						it, err := cur.Item()
						if err != nil {
							verr = "Item: " + err.Error()
							return
						}
						got = append(got, string(it.Key))
						if !bytes.Equal(it.Value, cursorValue(string(it.Key))) {
							verr = fmt.Sprintf("value of %q is %q, expected %q", it.Key, it.Value, cursorValue(string(it.Key)))
						}
						cur.Next()
					}
				})
				run.Add("evaluations", 1)
				if pan != nil {
					viol("cursor-panic", s0, s1, target, forward, fmt.Sprintf("panicked: %v", pan))
				} else if verr != "" {
					viol("cursor-error", s0, s1, target, forward, verr)
				} else if strings.Join(got, "\x01") != strings.Join(want, "\x01") {
					viol("cursor", s0, s1, target, forward, fmt.Sprintf("visited %q, expected %q", got, want))
				}
			}
		}
	}
	for m0 := 0; m0 < 1<<n; m0++ {
		s0 := subset(m0)
		kvs := []vstore.KV{}
		for _, k := range s0 {
			kvs = append(kvs, vstore.KV{K: []byte(k), V: cursorValue(k)})
		}
		if err := vstore.Restore(st, kvs); err != nil {
			panic(err)
		}
		tx, _ := st.Begin(false)
		walk(tx, s0, s0, nil)
		tx.Rollback()
		run.Distinct("cursor_states", fmt.Sprintf("%d", m0))
		if !withWriteTx {
			continue
		}
		for m1 := 0; m1 < 1<<n; m1++ {
			if m1 == m0 {
				continue
			}
			s1 := subset(m1)
			wtx, _ := st.Begin(true)
			for i, k := range cursorKeys {
				in0, in1 := m0&(1<<i) != 0, m1&(1<<i) != 0
				if in1 && !in0 {
					wtx.Set([]byte(k), cursorValue(k))
				}
				if in0 && !in1 {
					wtx.Delete([]byte(k))
				}
			}
			walk(wtx, s1, s0, s1)
			wtx.Rollback()
			run.Distinct("cursor_states", fmt.Sprintf("%d>%d", m0, m1))
		}
	}
	run.Sample(map[string]interface{}{"backend": backend, "key_universe": cursorKeys, "seek_targets": cursorTargets, "empty_values": []string{"bb", "d"}})
}

// RangeNameLengthSweep: the same small range sweep for every length of the indexed field's name (and a few collection
// name lengths): key prefixes of every length up to maxLen, so that nothing depends on how a prefix buffer happens to
// be sized.
func RangeNameLengthSweep(run *ev.Run, backend string, maxLen int) {
	var smu sync.Mutex
	stores := map[int]store.Store{}
	getStore := func(w int) store.Store {
		smu.Lock()
		defer smu.Unlock()
		if stores[w] == nil {
			dir := ""
			if backend != drv.Badger {
				dir = drv.NewScratchDir()
			}
			st, err := drv.OpenRaw(backend, dir)
			if err != nil {
				panic(err)
			}
			stores[w] = st
		}
		return stores[w]
	}
	defer func() {
		for _, st := range stores {
			st.Close()
		}
	}()
	entries := []idxEntry{{"k1", ID(1)}, {"k3", ID(2)}, {"k3", ID(3)}, {"k5", ID(4)}, {"k7", ID(5)}, {int64(1), ID(6)}, {int64(2), ID(7)}, {nil, ID(8)}}
	bounds := []interface{}{nil, "k3", "k7", "k", int64(1), int64(2)}
	ranges := allRangesOver(bounds)
	ParallelFor(maxLen, 0, func(w, li int) {
		L := li + 1
		st := getStore(w)
		for _, coll := range []string{"c", "customer_orders", strings.Repeat("n", 40)} {
			field := strings.Repeat("f", L)
			if err := vstore.Restore(st, nil); err != nil {
				panic(err)
			}
			tx, _ := st.Begin(true)
			idx := index.CreateIndex(coll, field, index.SingleField, tx)
			for _, e := range entries {
				idx.Add(e.id, m.Clone(e.v), -1)
			}
			tx.Set([]byte("coll:"+coll), []byte("{}"))
			tx.Commit()
			rtx, _ := st.Begin(false)
			ridx := index.CreateIndex(coll, field, index.SingleField, rtx).(index.RangeIndex)
			for ri := range ranges {
				r := ranges[ri]
				for _, reverse := range []bool{false, true} {
					got := []string{}
					var rerr error
					pan := safely(func() {
						rerr = ridx.IterateRange(r.clover(), reverse, func(id string) error { got = append(got, id); return nil })
					})
					run.Add("evaluations", 1)
					want := 0
					for _, e := range entries {
						if r.contains(e.v) {
							want++
						}
					}
					bad := pan != nil || rerr != nil || len(got) != want
					if !bad {
						seen := map[string]bool{}
						for _, id := range got {
							ok := false
							for _, e := range entries {
								if e.id == id && r.contains(e.v) && !seen[id] {
									ok = true
								}
							}
							seen[id] = true
							if !ok {
								bad = true
							}
						}
					}
					if bad {
						run.Violation(fmt.Sprintf("name-length|%s|rev=%v|%s", backend, reverse, rangeClass(&r)), fmt.Sprintf("[%s] collection name of %d bytes, field name of %d bytes, range %s, reverse=%v: yielded %v (err=%v panic=%v), expected %d entries", backend, len(coll), L, r, reverse, shortIDs(got), rerr, pan, want),
							map[string]interface{}{"engine": "rangesweep-namelength", "backend": backend, "collection_name_length": len(coll), "field_name_length": L, "range": r.String(), "reverse": reverse})
					}
				}
			}
			rtx.Rollback()
			run.Distinct("contents", fmt.Sprintf("len%d/%d", len(coll), L))
		}
	})
}
