package eng

import (
	"bytes"
	"fmt"
	"math"
	"time"

	"github.com/ostafen/clover/v2/document"
	"github.com/ostafen/clover/v2/index"
	"github.com/ostafen/clover/v2/query"
	"github.com/ostafen/clover/v2/store"
	"verif/ev"
	"verif/m"
)

// OrderValues: the boundary-rich value set of C10.
func OrderValues() []interface{} {
	mk := func(y int, mo time.Month, d, h, mi, s, ns int, loc *time.Location) time.Time {
		return time.Date(y, mo, d, h, mi, s, ns, loc)
	}
	plus2 := time.FixedZone("p2", 2*3600)
	A := func(v ...interface{}) []interface{} { return append([]interface{}{}, v...) }
	O := func(kv ...interface{}) map[string]interface{} {
		o := map[string]interface{}{}
		for i := 0; i+1 < len(kv); i += 2 {
			o[kv[i].(string)] = kv[i+1]
		}
		return o
	}
	return []interface{}{
		nil,
		int64(math.MinInt64), int64(math.MinInt64 + 1), int64(-(1 << 53)), int64(-1), int64(0), int64(1), int64(2), int64(1 << 53), int64(math.MaxInt64 - 1), int64(math.MaxInt64),
		uint64(0), uint64(1), uint64(1<<63 - 1), uint64(1 << 63), uint64(math.MaxUint64),
		math.Inf(-1), float64(-1.5), math.Copysign(0, -1), float64(0), float64(0.5), float64(1), float64(1.0000000000000002), float64(2), math.Inf(1),
		"", "\x00", "\x00\x01", "a", "a\x00", "a\xff", "ab", "b", "\xff", "\xff\x00",
		A(), A(nil), A(int64(1)), A(int64(1), int64(2)), A(int64(2)), A("a"), A(A()), A(A(int64(1))), A(O()), A(true), A(uint64(1)), A(float64(1.5)),
		O(), O("a", nil), O("a", int64(1)), O("a", int64(1), "b", int64(0)), O("a", int64(2)), O("ab", int64(0)), O("b", int64(0)), O("a", A()), O("a", O()), O("a", "x"),
		false, true,
		mk(1, 1, 1, 0, 0, 0, 0, time.UTC), mk(1677, 9, 21, 0, 12, 44, 0, time.UTC), mk(1700, 1, 1, 0, 0, 0, 0, time.UTC), mk(1969, 12, 31, 23, 59, 59, 999999999, time.UTC),
		mk(1970, 1, 1, 0, 0, 0, 0, time.UTC), mk(1970, 1, 1, 0, 0, 0, 1, time.UTC), mk(2024, 5, 5, 12, 0, 0, 0, time.UTC), mk(2024, 5, 5, 14, 0, 0, 0, plus2),
		mk(2200, 1, 1, 0, 0, 0, 0, time.UTC), mk(2262, 4, 11, 23, 47, 16, 0, time.UTC), mk(9999, 12, 31, 23, 59, 59, 0, time.UTC),
	}
}

func isBigInt(v interface{}) bool {
	switch x := v.(type) {
	case int64:
		return x > 1<<53 || x < -(1<<53)
	case uint64:
		return x > 1<<53
	}
	return false
}

func isFloat(v interface{}) bool { _, ok := v.(float64); return ok }

// comparable: is the pair inside the property's stated domain (integers beyond 2^53 only among integers).
func comparableDomain(a, b interface{}) bool {
	if (isBigInt(a) && isFloat(b)) || (isBigInt(b) && isFloat(a)) {
		return false
	}
	switch x := a.(type) {
	case []interface{}:
		if y, ok := b.([]interface{}); ok {
			for i := 0; i < len(x) && i < len(y); i++ {
				if !comparableDomain(x[i], y[i]) {
					return false
				}
			}
		}
	case map[string]interface{}:
		if y, ok := b.(map[string]interface{}); ok {
			for k, v := range x {
				if w, ok := y[k]; ok && !comparableDomain(v, w) {
					return false
				}
			}
		}
	}
	return true
}

// keyDomain: numbers within 2^53 and times from 1970 on (recursively).
func keyDomain(v interface{}) bool {
	switch x := v.(type) {
	case int64, uint64:
		return !isBigInt(v)
	case float64:
		return !math.IsInf(x, 0) || true
	case time.Time:
		return !x.Before(time.Unix(0, 0)) && x.Year() <= 2262 && x.UnixNano() >= 0
	case []interface{}:
		for _, e := range x {
			if !keyDomain(e) {
				return false
			}
		}
	case map[string]interface{}:
		for _, e := range x {
			if !keyDomain(e) {
				return false
			}
		}
	}
	return true
}

// CloverSign observes clover's comparison of a against b through public criteria evaluation:
// +1 if {x:a} satisfies x > b, -1 if x < b, 0 if x == b. ok=false if the three answers are inconsistent.
func CloverSign(a, b interface{}) (s int, ok bool, pan interface{}) {
	defer func() {
		if p := recover(); p != nil {
			pan = p
		}
	}()
	d := document.NewDocument()
	d.Set("x", m.Clone(a))
	gt := query.Field("x").Gt(m.Clone(b)).Satisfy(d)
	lt := query.Field("x").Lt(m.Clone(b)).Satisfy(d)
	eq := query.Field("x").Eq(m.Clone(b)).Satisfy(d)
	ge := query.Field("x").GtEq(m.Clone(b)).Satisfy(d)
	le := query.Field("x").LtEq(m.Clone(b)).Satisfy(d)
	n := 0
	if gt {
		n++
		s = 1
	}
	if lt {
		n++
		s = -1
	}
	if eq {
		n++
		s = 0
	}
	ok = n == 1 && ge == (gt || eq) && le == (lt || eq)
	return s, ok, nil
}

// recTx records the keys an index writes.
type recTx struct{ keys [][]byte }

func (t *recTx) Set(k, v []byte) error               { t.keys = append(t.keys, append([]byte{}, k...)); return nil }
func (t *recTx) Get(k []byte) ([]byte, error)        { return nil, nil }
func (t *recTx) Delete(k []byte) error               { return nil }
func (t *recTx) Cursor(f bool) (store.Cursor, error) { return nil, fmt.Errorf("no cursor") }
func (t *recTx) Commit() error                       { return nil }
func (t *recTx) Rollback() error                     { return nil }

// IndexKey returns the key bytes under which the index stores value v for a fixed document id.
func IndexKey(v interface{}) (key []byte, err error, pan interface{}) {
	defer func() {
		if p := recover(); p != nil {
			pan = p
		}
	}()
	tx := &recTx{}
	idx := index.CreateIndex("c", "x", index.SingleField, tx)
	if err := idx.Add(ID(1), m.Clone(v), -1); err != nil {
		return nil, err, nil
	}
	if len(tx.keys) != 1 {
		return nil, fmt.Errorf("index wrote %d keys for one value", len(tx.keys)), nil
	}
	return tx.keys[0], nil, nil
}

// OrderSweep: all pairs and triples of the value set (C10).
func OrderSweep(run *ev.Run, vals []interface{}) {
	n := len(vals)
	sign := make([][]int, n)
	valid := make([][]bool, n)
	viol := func(kind string, msg string, w map[string]interface{}) {
		run.Violation(kind, msg, w)
	}
	for i := range vals {
		sign[i] = make([]int, n)
		valid[i] = make([]bool, n)
		for j := range vals {
			a, b := vals[i], vals[j]
			if !comparableDomain(a, b) {
				run.Add("pairs_outside_stated_domain", 1)
				continue
			}
			s, ok, pan := CloverSign(a, b)
			run.Add("evaluations", 1)
			w := map[string]interface{}{"engine": "ordersweep", "a": m.ToJSON(a), "b": m.ToJSON(b)}
			if pan != nil {
				viol(fmt.Sprintf("compare-panic|%s|%s", typeName(a), typeName(b)), fmt.Sprintf("comparing %s with %s panicked: %v", m.Canon(a), m.Canon(b), pan), w)
				continue
			}
			if !ok {
				viol(fmt.Sprintf("compare-inconsistent|%s|%s", typeName(a), typeName(b)), fmt.Sprintf("Gt/Lt/Eq/GtEq/LtEq disagree with each other for %s vs %s", m.Canon(a), m.Canon(b)), w)
				continue
			}
			valid[i][j] = true
			sign[i][j] = s
			want := m.Compare(a, b)
			run.Distinct("pairs", fmt.Sprintf("%d,%d", i, j))
			if s != want {
				viol(fmt.Sprintf("compare-sign|%s|%s", typeName(a), typeName(b)), fmt.Sprintf("clover orders %s vs %s as %d, the documented order gives %d", m.Canon(a), m.Canon(b), s, want), w)
			}
		}
	}
	// laws on clover's own signs
	for i := 0; i < n; i++ {
		if valid[i][i] && sign[i][i] != 0 {
			viol("law-reflexive|"+typeName(vals[i]), fmt.Sprintf("%s does not compare equal to itself", m.Canon(vals[i])), map[string]interface{}{"a": m.ToJSON(vals[i])})
		}
		for j := 0; j < n; j++ {
			if valid[i][j] && valid[j][i] && sign[i][j] != -sign[j][i] {
				viol(fmt.Sprintf("law-antisymmetric|%s|%s", typeName(vals[i]), typeName(vals[j])), fmt.Sprintf("cmp(%s,%s)=%d but cmp(b,a)=%d", m.Canon(vals[i]), m.Canon(vals[j]), sign[i][j], sign[j][i]), map[string]interface{}{"a": m.ToJSON(vals[i]), "b": m.ToJSON(vals[j])})
			}
			for k := 0; k < n; k++ {
				if !(valid[i][j] && valid[j][k] && valid[i][k]) {
					continue
				}
				run.Add("triples", 1)
				if sign[i][j] <= 0 && sign[j][k] <= 0 && sign[i][k] > 0 {
					viol(fmt.Sprintf("law-transitive|%s|%s|%s", typeName(vals[i]), typeName(vals[j]), typeName(vals[k])), fmt.Sprintf("%s <= %s <= %s but the first compares greater than the last", m.Canon(vals[i]), m.Canon(vals[j]), m.Canon(vals[k])), map[string]interface{}{"a": m.ToJSON(vals[i]), "b": m.ToJSON(vals[j]), "c": m.ToJSON(vals[k])})
				}
			}
		}
	}
	// index key order
	keys := make([][]byte, n)
	for i, v := range vals {
		if !keyDomain(v) {
			continue
		}
		k, err, pan := IndexKey(v)
		run.Add("evaluations", 1)
		if pan != nil || err != nil {
			viol("key-error|"+typeName(v), fmt.Sprintf("indexing %s failed: err=%v panic=%v", m.Canon(v), err, pan), map[string]interface{}{"a": m.ToJSON(v)})
			continue
		}
		keys[i] = k
	}
	for i := range vals {
		for j := range vals {
			if keys[i] == nil || keys[j] == nil || !comparableDomain(vals[i], vals[j]) {
				continue
			}
			run.Add("key_pairs", 1)
			want := m.Compare(vals[i], vals[j])
			got := bytes.Compare(keys[i], keys[j])
			if got != want {
				viol(fmt.Sprintf("key-order|%s|%s", typeName(vals[i]), typeName(vals[j])), fmt.Sprintf("index keys of %s and %s compare %d, the values compare %d", m.Canon(vals[i]), m.Canon(vals[j]), got, want), map[string]interface{}{"engine": "ordersweep", "a": m.ToJSON(vals[i]), "b": m.ToJSON(vals[j])})
			}
		}
	}
	run.Sample(map[string]interface{}{"pair": []interface{}{m.ToJSON(vals[1]), m.ToJSON(vals[14])}, "observed_through": "Field(x).Gt/Lt/Eq/GtEq/LtEq(b).Satisfy({x:a}) and index.Add on a recording transaction"})
	run.Sample(map[string]interface{}{"values": n})
}

func typeName(v interface{}) string {
	switch x := v.(type) {
	case nil:
		return "nil"
	case int64:
		if isBigInt(v) {
			return "int64-big"
		}
		return "int64"
	case uint64:
		if isBigInt(v) {
			return "uint64-big"
		}
		return "uint64"
	case float64:
		if math.IsInf(x, 0) {
			return "inf"
		}
		return "float64"
	case string:
		return "string"
	case bool:
		return "bool"
	case time.Time:
		if x.Before(time.Unix(0, 0)) {
			return "time-pre1970"
		}
		if x.Year() > 2262 {
			return "time-post2262"
		}
		return "time"
	case []interface{}:
		return "array"
	case map[string]interface{}:
		return "object"
	}
	return fmt.Sprintf("%T", v)
}
