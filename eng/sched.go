package eng

import (
	"bytes"
	"errors"
	"fmt"
	"os"
	"runtime"
	"sort"
	"strconv"
	"strings"
	"sync"
	"sync/atomic"
	"time"

	"github.com/anishathalye/porcupine"
	badgerdb "github.com/dgraph-io/badger/v4"
	"verif/drv"
	"verif/ev"
	"verif/m"
	"verif/vstore"
)

// ---- cooperative scheduler: exactly one client goroutine runs at a time ----

type schedPoint struct {
	enabled        []int // canonical order: running thread first if still enabled, then ascending ids
	choice         int
	runningEnabled bool
	what           string
}

type sched struct {
	n        int
	bbolt    bool // model the single-writer lock as an enabledness condition
	allCalls bool // every store call is a scheduling point
	mode     string
	wake     []chan struct{}
	done     []bool
	started  []bool
	pending  []vstore.Call
	pendOp   []bool // pending point is an operation boundary
	cur      int
	writer   int
	prefix   []int
	points   []schedPoint
	clock    int64
	begins   []int       // transactions begun by the thread's current operation
	finished chan string // "" = all threads done, otherwise the reason (deadlock, bad prefix)
	aborted  bool
	diverged string

	// Threads blocked on a lock INSIDE clover (which the store-level hooks cannot see): the thread that was given the
	// processor never reaches its next store call because a parked thread holds the lock. The monitor of runSchedule
	// recognises this from the goroutine's wait state and stack (never from elapsed time alone), marks the thread
	// stalled - disabled - and lets another thread run; the stalled thread parks itself at its next store call.
	mu       sync.Mutex
	gids     []int64
	stalled  []bool
	anyStall int32 // atomic: some thread stalled during this execution (thread identity then comes from the goroutine id)
	stalls   int
	progress int64 // atomic: store calls and scheduling events so far
}

func newSched(n int, bbolt bool, mode string, prefix []int) *sched {
	s := &sched{n: n, bbolt: bbolt, allCalls: mode == ModeEveryCall, mode: mode, prefix: prefix, cur: -1, writer: -1, finished: make(chan string, 1)}
	s.wake = make([]chan struct{}, n)
	for i := range s.wake {
		s.wake[i] = make(chan struct{}, 1)
	}
	s.done = make([]bool, n)
	s.started = make([]bool, n)
	s.pending = make([]vstore.Call, n)
	s.pendOp = make([]bool, n)
	s.begins = make([]int, n)
	s.gids = make([]int64, n)
	s.stalled = make([]bool, n)
	for i := range s.pendOp {
		s.pendOp[i] = true
	}
	return s
}

func (s *sched) tick() int64 { return atomic.AddInt64(&s.clock, 1) }

// whoami: the client thread the calling goroutine belongs to.
func (s *sched) whoami() int {
	if atomic.LoadInt32(&s.anyStall) == 0 {
		return s.cur // exactly one client goroutine runs
	}
	g := goid()
	for t, id := range s.gids {
		if id == g {
			return t
		}
	}
	return s.cur
}

func (s *sched) enabledThread(t int) bool {
	if s.done[t] || s.stalled[t] {
		return false
	}
	if s.bbolt && !s.pendOp[t] {
		c := s.pending[t]
		if c.Kind == vstore.Begin && c.Update && s.writer != -1 && s.writer != t {
			return false // bbolt: one writer at a time; the real lock is never contended because of this rule
		}
	}
	return true
}

// decide picks the next thread to run. running = -1 when no thread is running (start, or a thread just ended).
func (s *sched) decide(running int, what string) int {
	en := []int{}
	runningEnabled := running >= 0 && s.enabledThread(running)
	if runningEnabled {
		en = append(en, running)
	}
	for t := 0; t < s.n; t++ {
		if t != running && s.enabledThread(t) {
			en = append(en, t)
		}
	}
	if len(en) == 0 {
		return -1
	}
	choice := 0
	if i := len(s.points); i < len(s.prefix) {
		choice = s.prefix[i]
		if choice >= len(en) {
			s.diverged = fmt.Sprintf("replay diverged: decision %d has %d enabled threads, the schedule asks for #%d", i, len(en), choice)
			if os.Getenv("VERIF_SCHED_DEBUG") != "" {
				s.diverged += " | replay trace: " + traceOf(s.points) + fmt.Sprintf(" now=%s en=%v stalled=%v done=%v", what, en, s.stalled, s.done)
			}
			return -2
		}
	}
	s.points = append(s.points, schedPoint{enabled: en, choice: choice, runningEnabled: runningEnabled, what: what})
	return en[choice]
}

// point is called by the running thread before a store call (or at an operation boundary).
func (s *sched) point(t int, c vstore.Call, opBoundary bool) {
	atomic.AddInt64(&s.progress, 1)
	s.mu.Lock()
	s.pending[t], s.pendOp[t] = c, opBoundary
	if s.stalled[t] {
		// a stalled thread got its lock and arrives here while another thread has the processor: it parks as an
		// ordinary enabled thread; the decision that picks it lets it go on
		s.stalled[t] = false
		s.mu.Unlock()
		<-s.wake[t]
		return
	}
	s.mu.Unlock()
	s.settle()
	s.mu.Lock()
	what := "op"
	if !opBoundary {
		what = "after-tx-end"
		if c.Kind != vstore.NKinds {
			what = c.Kind.String()
		}
	}
	next := s.decide(t, fmt.Sprintf("t%d:%s", t, what))
	if next < 0 {
		s.aborted = true
		if next == -2 {
			s.finished <- s.diverged
		} else {
			s.finished <- s.deadlockReason()
		}
		s.mu.Unlock()
		select {} // park this goroutine forever; the execution is discarded
	}
	s.tick()
	if next != t {
		s.cur = next
		s.mu.Unlock()
		s.wake[next] <- struct{}{}
		<-s.wake[t]
		return
	}
	s.mu.Unlock()
}

func (s *sched) deadlockReason() string {
	for t, st := range s.stalled {
		if st && !s.done[t] {
			return "deadlock: no thread is enabled (thread " + fmt.Sprint(t) + " waits for a lock inside clover that no runnable thread holds)"
		}
	}
	return "deadlock: no thread is enabled"
}

func (s *sched) exit(t int) {
	atomic.AddInt64(&s.progress, 1)
	s.mu.Lock()
	s.done[t] = true
	if s.stalled[t] {
		// a stalled thread that ran to its end beside the thread that has the processor: that thread goes on deciding
		s.stalled[t] = false
		s.mu.Unlock()
		return
	}
	s.mu.Unlock()
	s.settle()
	s.mu.Lock()
	defer s.mu.Unlock()
	all := true
	for _, d := range s.done {
		all = all && d
	}
	if all {
		s.cur = -1
		s.finished <- ""
		return
	}
	next := s.decide(-1, fmt.Sprintf("t%d:end", t))
	if next < 0 {
		s.aborted = true
		if next == -2 {
			s.finished <- s.diverged
		} else {
			s.finished <- s.deadlockReason()
		}
		return
	}
	s.cur = next
	s.wake[next] <- struct{}{}
}

// parkResumed: a stalled thread got its lock and reached a store call while another thread has the processor: it
// becomes an ordinary parked (enabled) thread again and waits for a decision to pick it.
func (s *sched) parkResumed(t int, c vstore.Call) bool {
	s.mu.Lock()
	if !s.stalled[t] {
		s.mu.Unlock()
		return false
	}
	s.stalled[t] = false
	s.pending[t], s.pendOp[t] = c, false
	s.mu.Unlock()
	atomic.AddInt64(&s.progress, 1)
	<-s.wake[t]
	return true
}

// settle waits until every stalled thread has either arrived at a store call (and parked) or is, in one and the
// same snapshot of all goroutines, still blocked on a lock inside clover: the set of enabled threads at the
// coming decision is then a function of the lock state, not of timing.
func (s *sched) settle() {
	if atomic.LoadInt32(&s.anyStall) == 0 {
		return
	}
	deadline := time.Now().Add(20 * time.Second)
	for {
		s.mu.Lock()
		ids := []int64{}
		for t, st := range s.stalled {
			if st && !s.done[t] {
				ids = append(ids, s.gids[t])
			}
		}
		s.mu.Unlock()
		if len(ids) == 0 {
			return
		}
		states := goroutineStates(ids)
		quiet := true
		for _, id := range ids {
			if !states[id] {
				quiet = false
			}
		}
		if quiet || time.Now().After(deadline) {
			return
		}
		time.Sleep(200 * time.Microsecond)
	}
}

// stall is called by the monitor when the thread that has the processor is blocked on a lock inside clover.
func (s *sched) stall(t int, seen int64) {
	s.mu.Lock()
	if s.cur != t || s.done[t] || s.stalled[t] || s.aborted || atomic.LoadInt64(&s.progress) != seen {
		s.mu.Unlock()
		return
	}
	s.stalled[t] = true
	s.stalls++
	atomic.StoreInt32(&s.anyStall, 1)
	s.mu.Unlock()
	s.settle()
	s.mu.Lock()
	defer s.mu.Unlock()
	if s.cur != t || s.aborted {
		return
	}
	if !s.stalled[t] {
		// it got the lock meanwhile and parked itself at its next store call: an ordinary decision
	}
	next := s.decide(t, fmt.Sprintf("t%d:blocked", t))
	if next < 0 {
		s.aborted = true
		if next == -2 {
			s.finished <- s.diverged
		} else {
			s.finished <- s.deadlockReason()
		}
		return
	}
	s.tick()
	atomic.AddInt64(&s.progress, 1)
	s.cur = next
	s.wake[next] <- struct{}{}
}

// Scheduling-point granularities.
const (
	// ModeReduced: a free choice before every operation is invoked, before every commit of a write
	// transaction, and before the second and every later Begin inside one operation. Sound for stores that isolate uncommitted work and take their snapshot at Begin: switching
	// anywhere else only yields histories with earlier calls / later returns, whose real-time constraints are
	// weaker than those of a schedule that is explored anyway (DESIGN 3.6 E6).
	ModeReduced = "op+commit"
	// ModeTxPoints: additionally before every Begin and every Rollback.
	ModeTxPoints = "tx-boundaries"
	// ModeEveryCall: before every store call.
	ModeEveryCall = "every-call"
)

// yieldIfBlocked is called before a call that is not a free choice point: the running thread continues unless
// the call is disabled (bbolt: Begin(true) while another thread holds the write transaction).
func (s *sched) yieldIfBlocked(t int, c vstore.Call) {
	s.mu.Lock()
	s.pending[t], s.pendOp[t] = c, false
	ok := s.enabledThread(t)
	s.mu.Unlock()
	if ok {
		return
	}
	s.point(t, c, false)
}

// ---- scenarios ----

type Scenario struct {
	Name    string
	Setup   []m.Op
	Threads [][]m.Op
}

type histOp struct {
	Thread       int
	Op           m.Op
	Call, Return int64
	Res          *drv.Result
	Conflict     bool
}

type execution struct {
	choices []int
	points  []schedPoint
	hist    []histOp
	final   *m.DB // API-visible final state
	finalFs []Finding
	abort   string
	obs     string // canonical text of all observations (determinism check)
	stalls  int    // threads found blocked on a lock below the scheduler (clover's own, or bbolt's) during this execution
}

// isConflict: the store refused the transaction (optimistic conflict, or badger's per-transaction size limit): the
// operation must then have had no effect.
func isConflict(err error) bool {
	return err != nil && (errors.Is(err, badgerdb.ErrConflict) || errors.Is(err, badgerdb.ErrTxnTooBig))
}

// observeState reads the whole API-visible state into a model database.
func observeState(in *drv.Inst) (*m.DB, []Finding) {
	out := m.NewDB()
	fs := []Finding{}
	r := drv.Exec(in, m.Op{K: "listColls"})
	if r.Panic != nil || r.Err != nil {
		return out, []Finding{{Tag: "final", Msg: "ListCollections: " + r.String()}}
	}
	for _, name := range r.Names {
		c := &m.Coll{Docs: map[string]m.Doc{}, Indexes: map[string]bool{}}
		docs, err, pan := drv.FindAllMaps(in, &m.Q{Coll: name})
		if err != nil || pan != nil {
			fs = append(fs, Finding{Tag: "final", Msg: fmt.Sprintf("FindAll(%s): err=%v panic=%v", name, err, pan)})
		}
		for _, d := range docs {
			id, _ := d["_id"].(string)
			if c.Docs[id] != nil {
				fs = append(fs, Finding{Tag: "final", Msg: fmt.Sprintf("document %s appears twice in %s", id, name)})
			}
			c.Docs[id] = d
		}
		li := drv.Exec(in, m.Op{K: "listIndexes", Coll: name})
		for _, f := range li.Names {
			c.Indexes[f] = true
		}
		out.Colls[name] = c
	}
	return out, fs
}

// runSchedule executes one schedule (choice prefix, then default choices) on a restored instance.
func runSchedule(in *drv.Inst, snap []vstore.KV, sc *Scenario, mode string, prefix []int) *execution {
	if _, err := in.Fresh(snap); err != nil {
		panic(err)
	}
	n := len(sc.Threads)
	s := newSched(n, in.Backend == drv.BBolt, mode, prefix)
	x := &execution{}
	var hmu sync.Mutex
	in.V.Hook = func(c vstore.Call) {
		if s.aborted {
			select {}
		}
		atomic.AddInt64(&s.progress, 1)
		t := s.whoami()
		if atomic.LoadInt32(&s.anyStall) != 0 && s.parkResumed(t, c) {
			if c.Kind == vstore.Begin {
				s.begins[t]++
			}
			return // a decision has just picked this thread: it goes on with the call
		}
		var isPoint bool
		switch s.mode {
		case ModeReduced:
			isPoint = c.Kind == vstore.Commit && c.Update && !c.Done
			if c.Kind == vstore.Begin {
				// the reduction assumes one transaction per operation; a second (third, ...) transaction inside
				// one operation opens a window between two snapshots, which must be schedulable
				s.begins[t]++
				if s.begins[t] > 1 {
					isPoint = true
				}
			}
		case ModeTxPoints:
			isPoint = c.Kind == vstore.Begin || ((c.Kind == vstore.Commit || c.Kind == vstore.Rollback) && !c.Done)
		default:
			isPoint = c.Kind != vstore.Valid && c.Kind != vstore.CursorClose && !c.Done
		}
		if isPoint {
			s.point(t, c, false)
		} else if c.Kind == vstore.Begin {
			s.yieldIfBlocked(t, c)
		}
	}
	in.V.PostHook = func(c vstore.Call) {
		t := s.whoami()
		s.mu.Lock()
		if c.Kind == vstore.Begin && c.Update {
			s.writer = t
		}
		if (c.Kind == vstore.Commit || c.Kind == vstore.Rollback) && c.Update && !c.Done && s.writer == t {
			s.writer = -1
		}
		s.mu.Unlock()
		if atomic.LoadInt32(&s.anyStall) != 0 && s.parkResumed(t, c) {
			return // (a thread that was blocked inside this very store call)
		}
		if (c.Kind == vstore.Commit || c.Kind == vstore.Rollback) && !c.Done && s.mode != ModeReduced && !s.aborted {
			// a point right AFTER a transaction ended and before the operation returns: an operation that still uses
			// memory it obtained inside the transaction (bbolt hands out slices of its mmap) is exposed to the commits
			// other threads make in this window
			s.point(t, vstore.Call{Kind: vstore.NKinds}, false)
		}
	}
	var ready sync.WaitGroup
	ready.Add(n)
	for t := 0; t < n; t++ {
		t := t
		go func() {
			s.gids[t] = goid()
			ready.Done()
			<-s.wake[t]
			for _, op := range sc.Threads[t] {
				s.point(t, vstore.Call{}, true)
				s.begins[t] = 0
				call := s.tick()
				res := drv.Exec(in, op)
				if res.Leak != "" {
					// other threads legitimately hold transactions while this one returns: not a leak here
					res.Leak = ""
				}
				ret := s.tick()
				hmu.Lock()
				x.hist = append(x.hist, histOp{Thread: t, Op: op, Call: call, Return: ret, Res: res, Conflict: isConflict(res.Err)})
				hmu.Unlock()
			}
			s.exit(t)
		}()
	}
	ready.Wait()
	// monitor: when no store call and no scheduling event has happened for a while, look at the goroutine that has
	// the processor; only a wait state on a lock with clover's own code on top of the stack makes it "stalled"
	stopMon := make(chan struct{})
	defer close(stopMon)
	go func() {
		tick := time.NewTicker(time.Millisecond)
		defer tick.Stop()
		last, idle, wait := int64(-1), 0, 3
		for {
			select {
			case <-stopMon:
				return
			case <-tick.C:
			}
			p := atomic.LoadInt64(&s.progress)
			if p != last {
				last, idle, wait = p, 0, 3
				continue
			}
			idle++
			if idle < wait {
				continue
			}
			s.mu.Lock()
			cur := s.cur
			s.mu.Unlock()
			if cur < 0 {
				continue
			}
			if goroutineStates([]int64{s.gids[cur]})[s.gids[cur]] {
				s.stall(cur, p)
				idle, wait = 0, 3
			} else {
				idle = 0
				if wait < 1000 {
					wait *= 2 // a long computation or a slow store call: look less often
				}
			}
		}
	}()
	first := s.decide(-1, "start")
	if first < 0 {
		x.abort = "replay diverged at the first decision"
		in.V.Hook, in.V.PostHook = nil, nil
		return x
	}
	s.mu.Lock()
	s.cur = first
	s.mu.Unlock()
	s.wake[first] <- struct{}{}
	select {
	case why := <-s.finished:
		x.abort = why
	case <-time.After(60 * time.Second):
		x.abort = "watchdog: the schedule did not finish within 60 s (a thread is blocked outside the scheduler's control)"
		s.mu.Lock()
		cur := s.cur
		s.mu.Unlock()
		if cur >= 0 {
			x.abort += fmt.Sprintf("; thread %d has the processor: %s", cur, goroutineTop(s.gids[cur], 12))
		}
		s.aborted = true
	}
	in.V.Hook, in.V.PostHook = nil, nil
	if x.abort != "" {
		drv.ForgetInflight(in) // the parked threads of an aborted schedule never return
	}
	x.points = s.points
	s.mu.Lock()
	x.stalls = s.stalls
	s.mu.Unlock()
	for _, p := range s.points {
		x.choices = append(x.choices, p.choice)
	}
	if x.abort != "" {
		return x
	}
	if otx, _, oc := in.V.Leaks(); otx > 0 || oc > 0 {
		x.finalFs = append(x.finalFs, Finding{Tag: "leak", Msg: fmt.Sprintf("%d transaction(s) / %d cursor(s) still open after every thread finished", otx, oc)})
		in.V.ForgetLeaks()
	}
	var fs []Finding
	doneObs := make(chan struct{})
	go func() {
		x.final, fs = observeState(in)
		close(doneObs)
	}()
	select {
	case <-doneObs:
	case <-time.After(60 * time.Second):
		x.abort = "after every thread had returned, reading the final state did not finish within 60 s: a transaction was left open below the store interface (the database is wedged)"
		drv.ForgetInflight(in)
		return x
	}
	x.finalFs = append(x.finalFs, fs...)
	sort.SliceStable(x.hist, func(i, j int) bool { return x.hist[i].Call < x.hist[j].Call })
	var sb strings.Builder
	for _, h := range x.hist {
		fmt.Fprintf(&sb, "t%d %s [%d,%d] -> %s|%d|%v|", h.Thread, opSkel(h.Op), h.Call, h.Return, h.Res.Class, h.Res.N, h.Res.B)
		for _, d := range h.Res.Docs {
			sb.WriteString(m.Canon(d))
		}
		sb.WriteString(strings.Join(h.Res.Affected, ","))
		sb.WriteByte('\n')
	}
	sb.WriteString(x.final.Key())
	x.obs = sb.String()
	return x
}

// ---- linearizability against the reference model (porcupine) ----

type linOut struct {
	res      *drv.Result
	conflict bool
	final    *m.DB // for the closing snapshot operation
}

func modelStep(state *m.DB, op m.Op, out linOut) (bool, *m.DB) {
	if out.final != nil { // closing snapshot: the API-visible state must be the model state
		return state.Key() == out.final.Key(), state
	}
	if out.conflict { // rejected by the store because of a write conflict: no effect
		return true, state
	}
	r := out.res
	if r.Panic != nil {
		return false, state
	}
	coll := op.Coll
	if op.Q != nil {
		coll = op.Q.Coll
	}
	c := state.Colls[coll]
	switch op.K {
	case "findAll", "forEach":
		if c == nil {
			return r.Class == m.ECollNotExist, state
		}
		if r.Err != nil {
			return false, state
		}
		return state.CheckFind(op.Q, r.Docs) == nil, state
	case "count":
		if c == nil {
			return r.Class == m.ECollNotExist, state
		}
		if r.Err != nil {
			return false, state
		}
		sel := op.Q.Select(c.Docs)
		lo, hi := m.Window(len(sel), op.Q.EffSkip(), op.Q.EffLimit())
		return r.N == hi-lo, state
	case "exists":
		if c == nil {
			return r.Class == m.ECollNotExist, state
		}
		return r.Err == nil && r.B == (len(op.Q.Select(c.Docs)) > 0), state
	case "findById":
		if c == nil {
			return r.Class == m.ECollNotExist, state
		}
		if r.Err != nil {
			return false, state
		}
		d := c.Docs[op.Id]
		if d == nil {
			return len(r.Docs) == 0, state
		}
		return len(r.Docs) == 1 && m.Equal(r.Docs[0], d), state
	case "hasColl":
		return r.Err == nil && r.B == (c != nil), state
	case "hasIndex":
		if c == nil {
			return r.Class == m.ECollNotExist, state
		}
		return r.Err == nil && r.B == c.Indexes[op.Field], state
	case "listColls":
		return r.Err == nil && strings.Join(r.Names, "\x00") == strings.Join(state.CollNames(), "\x00"), state
	}
	obs := &m.Obs{GenIDs: r.GenIDs, Affected: r.Affected}
	outs, err := state.Apply(op, obs)
	if err != nil {
		return false, state
	}
	for _, oc := range outs {
		if drv.ClassMatches(oc.Err, r.Class) {
			if op.K == "updateFunc" && r.Err == nil {
				// the update function must have run exactly on the selected documents, on their current values
				want, err := state.Affected(op.Q, obs)
				got := append([]string{}, r.Affected...)
				sort.Strings(got)
				if err != nil || strings.Join(got, ",") != strings.Join(want, ",") {
					return false, state
				}
				for i, id := range r.Affected {
					if m.Canon(c.Docs[id]) != r.PreVals[i] {
						return false, state
					}
				}
			}
			return true, oc.State
		}
	}
	return false, state
}

func linearizable(init *m.DB, x *execution) bool {
	model := porcupine.Model{
		Init: func() interface{} { return init },
		Step: func(st, in, out interface{}) (bool, interface{}) {
			ok, ns := modelStep(st.(*m.DB), in.(m.Op), out.(linOut))
			return ok, ns
		},
		Equal: func(a, b interface{}) bool { return a.(*m.DB).Key() == b.(*m.DB).Key() },
	}
	ops := []porcupine.Operation{}
	last := int64(0)
	for _, h := range x.hist {
		ops = append(ops, porcupine.Operation{ClientId: h.Thread, Input: h.Op, Call: h.Call, Output: linOut{res: h.Res, conflict: h.Conflict}, Return: h.Return})
		if h.Return > last {
			last = h.Return
		}
	}
	ops = append(ops, porcupine.Operation{ClientId: len(x.hist) + 7, Input: m.Op{K: "snapshot"}, Call: last + 1, Output: linOut{final: x.final}, Return: last + 2})
	return porcupine.CheckOperations(model, ops)
}

// ---- explorer ----

type SchedConfig struct {
	Scenario *Scenario
	Backend  string
	Mode     string
	Bound    int // preemption bound; < 0 = unbounded
	Budget   time.Duration
	Own      map[string]bool
}

func (x *execution) preemptionsBefore(i int) int {
	n := 0
	for j := 0; j < i; j++ {
		if x.points[j].runningEnabled && x.points[j].choice != 0 {
			n++
		}
	}
	return n
}

// schedWorker instances (pre-grown bbolt files, badger arenas) are expensive to create: they are pooled across
// explorations and left to the process exit (the scratch directory is removed then).
type schedWorker struct{ in, scratch *drv.Inst }

var (
	schedPoolMu sync.Mutex
	schedPool   = map[string][]*schedWorker{}
)

func acquireSchedWorker(backend string) *schedWorker {
	schedPoolMu.Lock()
	if p := schedPool[backend]; len(p) > 0 {
		w := p[len(p)-1]
		schedPool[backend] = p[:len(p)-1]
		schedPoolMu.Unlock()
		return w
	}
	schedPoolMu.Unlock()
	in := drv.MustOpen(backend)
	in.OnOpen = pregrowIfBBolt
	pregrowIfBBolt(in)
	return &schedWorker{in: in, scratch: drv.MustOpen(backend)}
}

func releaseSchedWorker(backend string, w *schedWorker) {
	if w.in.DB == nil {
		return
	}
	schedPoolMu.Lock()
	schedPool[backend] = append(schedPool[backend], w)
	schedPoolMu.Unlock()
}

// SchedExplore enumerates every schedule of the scenario (depth-first over choice sequences, bounded by
// preemptions when Bound >= 0) and checks each complete execution.
func SchedExplore(cfg *SchedConfig, run *ev.Run) {
	sc := cfg.Scenario
	start := time.Now()
	// sequential setup, once
	bw := acquireSchedWorker(cfg.Backend)
	base := bw.in
	if _, err := base.Fresh(nil); err != nil {
		panic(err)
	}
	init := m.NewDB()
	for _, o := range sc.Setup {
		_, next, fs := drv.Step(base, init, o)
		for _, f := range fs {
			run.Violation("setup|"+sc.Name, "setup: "+f.Msg, nil)
		}
		init = next
	}
	snap := base.Dump()
	releaseSchedWorker(cfg.Backend, bw)

	name := fmt.Sprintf("%s/%s/%s", sc.Name, cfg.Backend, cfg.Mode)
	var mu sync.Mutex
	schedules, withPreempt, outcomes := 0, 0, map[string]bool{}
	capped := false
	stopped := false // an aborted schedule (deadlock, blocked thread) ends the exploration of this configuration
	report := func(tag string, x *execution, msg string) {
		if !cfg.Own[tag] {
			run.Blocked(tag)
			return
		}
		hist := []map[string]interface{}{}
		for _, h := range x.hist {
			hist = append(hist, map[string]interface{}{"thread": h.Thread, "op": h.Op, "call": h.Call, "return": h.Return, "result": h.Res.String(), "conflict": h.Conflict, "docs": len(h.Res.Docs), "n": h.Res.N, "ran_on": h.Res.Affected})
		}
		fin := ""
		if x.final != nil {
			fin = x.final.Key()
		}
		run.Violation(fmt.Sprintf("%s|%s|%s", tag, name, outcomeClass(x)), fmt.Sprintf("[%s] %s; schedule %v", name, msg, x.choices),
			map[string]interface{}{"engine": "sched", "scenario": sc, "backend": cfg.Backend, "points": cfg.Mode, "schedule": x.choices, "history": hist, "final_state": fin, "finding": msg})
	}
	workers := map[int]*schedWorker{}
	getW := func(w int) *schedWorker {
		mu.Lock()
		defer mu.Unlock()
		if workers[w] == nil {
			workers[w] = acquireSchedWorker(cfg.Backend)
		}
		return workers[w]
	}
	defer func() {
		for _, w := range workers {
			releaseSchedWorker(cfg.Backend, w)
		}
	}()
	checkExec := func(w *schedWorker, x *execution) {
		mu.Lock()
		schedules++
		if x.preemptionsBefore(len(x.points)) > 0 {
			withPreempt++
		}
		outcomes[x.obs] = true
		mu.Unlock()
		if x.abort != "" {
			tag := "deadlock"
			if strings.HasPrefix(x.abort, "replay") {
				tag = "harness"
			}
			report(tag, x, x.abort)
			mu.Lock()
			stopped = true
			mu.Unlock()
			w.in.Abandon()
			n := drv.MustOpen(cfg.Backend)
			n.OnOpen = pregrowIfBBolt
			pregrowIfBBolt(n)
			*w.in = *n
			return
		}
		for _, h := range x.hist {
			if h.Res.Panic != nil {
				report("panic", x, fmt.Sprintf("%s panicked: %v", h.Op, h.Res.Panic))
			}
		}
		for _, f := range x.finalFs {
			report(f.Tag, x, f.Msg)
		}
		bad := false
		if !linearizable(init, x) {
			bad = true
			// determinism: the same schedule must reproduce the same observations before the failure is believed
			y := runSchedule(w.in, snap, sc, cfg.Mode, x.choices)
			if y.obs != x.obs && x.stalls+y.stalls > 0 {
				report("nonlinearizable", x, "no sequential order of the operations consistent with real time explains the observed results and final state (the execution involved a thread blocked on a lock below the scheduler and does not replay step by step): "+describeHist(x))
			} else if y.obs != x.obs {
				report("harness", x, "the same schedule produced different observations when replayed: nondeterminism outside the scheduler's control")
			} else {
				report("nonlinearizable", x, "no sequential order of the operations consistent with real time explains the observed results and final state: "+describeHist(x))
			}
		}
		if !bad && x.final != nil {
			for _, f := range drv.AuditRaw(w.in, w.scratch, x.final) {
				report("rawkeys", x, "after the concurrent history: "+f.Msg)
			}
			for _, f := range drv.AuditAPI(w.in, x.final, drv.AuditOpts{}) {
				if f.Tag == "count" || f.Tag == "indexquery" || f.Tag == "id" {
					report(f.Tag, x, "after the concurrent history: "+f.Msg)
				}
			}
		}
	}
	// depth-first enumeration; the first levels are expanded sequentially to produce independent subtrees
	divergedAfterBlock := 0
	subtreeStalls := []int{} // per subtree root: the stalls of the execution its prefix was taken from
	var expand func(w *schedWorker, prefix []int, depthLimit int, out *[][]int, parentTrace string, parentStalls int)
	expand = func(w *schedWorker, prefix []int, depthLimit int, out *[][]int, parentTrace string, parentStalls int) {
		if cfg.Budget > 0 && time.Since(start) > cfg.Budget {
			capped = true
			return
		}
		mu.Lock()
		halt := stopped
		mu.Unlock()
		if halt {
			return
		}
		x := runSchedule(w.in, snap, sc, cfg.Mode, prefix)
		if os.Getenv("VERIF_SCHED_DEBUG") != "" && strings.HasPrefix(x.abort, "replay") {
			x.abort += " | parent trace: " + parentTrace
		}
		if strings.HasPrefix(x.abort, "replay") && parentStalls+x.stalls > 0 {
			// the execution this prefix was taken from had a thread blocked on a lock below the scheduler (e.g. a bbolt
			// commit that had to grow the file waited for an open read transaction): whether that happens depends on
			// the file's size, which executions leave behind; the prefix does not replay and its subtree is skipped
			mu.Lock()
			divergedAfterBlock++
			mu.Unlock()
			w.in.Abandon()
			n := drv.MustOpen(cfg.Backend)
			n.OnOpen = pregrowIfBBolt
			pregrowIfBBolt(n)
			*w.in = *n
			return
		}
		checkExec(w, x)
		myTrace := traceOf(x.points)
		for i := len(prefix); i < len(x.points); i++ {
			p := x.points[i]
			cost := x.preemptionsBefore(i)
			if p.runningEnabled {
				cost++
			}
			if cfg.Bound >= 0 && cost > cfg.Bound {
				continue
			}
			for alt := 1; alt < len(p.enabled); alt++ {
				np := append(append([]int{}, x.choices[:i]...), alt)
				if out != nil && len(np) > depthLimit {
					*out = append(*out, np)
					subtreeStalls = append(subtreeStalls, x.stalls)
				} else {
					expand(w, np, depthLimit, out, myTrace, x.stalls)
				}
			}
		}
	}
	subtrees := [][]int{}
	expand(getW(0), nil, 3, &subtrees, "", 0)
	ParallelFor(len(subtrees), 0, func(wi, i int) {
		expand(getW(wi), subtrees[i], 0, nil, "", subtreeStalls[i])
	})
	pfx := strings.ReplaceAll(name, "/", "_") + "_"
	run.Set(pfx+"seconds", float64(int(time.Since(start).Seconds()*10))/10)
	run.Set(pfx+"schedules", schedules)
	run.Set(pfx+"schedules_with_preemption", withPreempt)
	run.Set(pfx+"distinct_outcomes", len(outcomes))
	if cfg.Bound >= 0 {
		run.Set(pfx+"preemption_bound", cfg.Bound)
	} else {
		run.Set(pfx+"preemption_bound", "unbounded")
	}
	run.Add("states", int64(len(outcomes)))
	run.Add("transitions", int64(schedules))
	run.Add("schedules_with_preemption", int64(withPreempt))
	if divergedAfterBlock > 0 {
		run.NotExhaustive(fmt.Sprintf("%s: %d schedule prefixes taken from executions in which a thread was blocked below the scheduler did not replay; their subtrees were skipped", name, divergedAfterBlock))
	}
	if stopped {
		run.NotExhaustive(fmt.Sprintf("%s: exploration ended at the first aborted schedule (reported as a violation)", name))
	}
	if capped {
		run.NotExhaustive(fmt.Sprintf("%s: time budget %s reached after %d schedules", name, cfg.Budget, schedules))
	}
	run.Sample(map[string]interface{}{"scenario": name, "threads": sc.Threads, "schedules": schedules, "distinct_outcomes": len(outcomes)})
}

func traceOf(ps []schedPoint) string {
	parts := []string{}
	for i, p := range ps {
		parts = append(parts, fmt.Sprintf("%d:%s%v->%d", i, p.what, p.enabled, p.choice))
	}
	return strings.Join(parts, " ")
}

func describeHist(x *execution) string {
	parts := []string{}
	for _, h := range x.hist {
		r := h.Res.Class
		if r == "" {
			r = "ok"
		}
		extra := ""
		switch h.Op.K {
		case "findAll":
			extra = fmt.Sprintf(" %d docs", len(h.Res.Docs))
		case "count":
			extra = fmt.Sprintf(" =%d", h.Res.N)
		case "updateFunc":
			extra = fmt.Sprintf(" ran on %d", len(h.Res.Affected))
		}
		if h.Conflict {
			r = "conflict"
		}
		parts = append(parts, fmt.Sprintf("t%d %s [%d,%d] -> %s%s", h.Thread, opSkel(h.Op), h.Call, h.Return, r, extra))
	}
	fin := ""
	if x.final != nil {
		fin = strings.ReplaceAll(x.final.Key(), "\n", " / ")
		fin = strings.ReplaceAll(fin, "00000000-0000-4000-8000-0000000000", "#")
	}
	return strings.Join(parts, "; ") + "; final: " + fin
}

// outcomeClass: the results and final state without timestamps (used in the violation signature).
func outcomeClass(x *execution) string {
	parts := []string{}
	hs := append([]histOp{}, x.hist...)
	sort.SliceStable(hs, func(i, j int) bool { return hs[i].Thread < hs[j].Thread })
	for _, h := range hs {
		c := h.Res.Class
		if h.Conflict {
			c = "conflict"
		}
		parts = append(parts, fmt.Sprintf("t%d:%s=%s/%d/%d", h.Thread, h.Op.K, c, len(h.Res.Docs), h.Res.N))
	}
	fin := ""
	if x.final != nil {
		fin = fmt.Sprintf("%x", hashString(x.final.Key()))
	}
	return strings.Join(parts, ",") + "|final=" + fin
}

func hashString(s string) uint32 {
	var h uint32 = 2166136261
	for i := 0; i < len(s); i++ {
		h ^= uint32(s[i])
		h *= 16777619
	}
	return h
}

// pregrow makes the bbolt file large enough that no commit of a scenario has to remap it (a remap waits for
// every open read transaction, which the cooperative scheduler may have parked).
func pregrowIfBBolt(in *drv.Inst) {
	if in.Backend != drv.BBolt || os.Getenv("VERIF_NO_PREGROW") != "" { // (the knob exists to exercise the stall detection on bbolt's memory-map lock)
		return
	}
	drv.Exec(in, m.Op{K: "createColl", Coll: "__grow"})
	docs := []m.Doc{}
	for i := 0; i < 4000; i++ {
		docs = append(docs, m.Doc{"_id": ID(900000 + i), "pad": strings.Repeat("x", 2000)})
	}
	drv.Exec(in, m.Op{K: "insert", Coll: "__grow", Docs: docs})
	drv.Exec(in, m.Op{K: "dropColl", Coll: "__grow"})
	in.V.ForgetLeaks()
}

// ---- goroutine inspection (for locks inside clover that the store-level hooks cannot see) ----

func goid() int64 {
	var buf [64]byte
	n := runtime.Stack(buf[:], false)
	f := bytes.Fields(buf[:n])
	if len(f) < 2 {
		return -1
	}
	id, _ := strconv.ParseInt(string(f[1]), 10, 64)
	return id
}

const cloverModule = "github.com/ostafen/clover/v2"

// goroutineTop: wait state and innermost frames of one goroutine (diagnostics for the watchdog).
func goroutineTop(id int64, frames int) string {
	buf := make([]byte, 4<<20)
	buf = buf[:runtime.Stack(buf, true)]
	hdr := []byte(fmt.Sprintf("goroutine %d [", id))
	i := bytes.Index(buf, hdr)
	if i < 0 {
		return "(goroutine not found)"
	}
	body := buf[i:]
	if e := bytes.Index(body, []byte("\n\n")); e >= 0 {
		body = body[:e]
	}
	out := []string{}
	for _, ln := range strings.Split(string(body), "\n") {
		if strings.HasPrefix(ln, "\t") {
			continue
		}
		if k := strings.IndexByte(ln, '('); k > 0 && !strings.HasPrefix(ln, "goroutine") {
			ln = ln[:k]
		}
		out = append(out, ln)
		if len(out) > frames {
			break
		}
	}
	return strings.Join(out, " <- ")
}

// goroutineStates reports, for each goroutine id, whether it is blocked on a synchronisation primitive with a
// function of clover itself as the innermost frame that is not runtime or sync code. One call takes one consistent
// snapshot of every goroutine.
func goroutineStates(ids []int64) map[int64]bool {
	buf := make([]byte, 1<<20)
	for {
		n := runtime.Stack(buf, true)
		if n < len(buf) {
			buf = buf[:n]
			break
		}
		buf = make([]byte, 2*len(buf))
	}
	out := map[int64]bool{}
	for _, id := range ids {
		out[id] = false
		hdr := []byte(fmt.Sprintf("goroutine %d [", id))
		i := bytes.Index(buf, hdr)
		if i < 0 || (i > 0 && buf[i-1] != '\n') {
			continue
		}
		rest := buf[i+len(hdr):]
		j := bytes.IndexByte(rest, ']')
		if j < 0 {
			continue
		}
		state := string(rest[:j])
		if k := strings.IndexByte(state, ','); k >= 0 {
			state = state[:k]
		}
		switch state {
		case "sync.Mutex.Lock", "sync.RWMutex.Lock", "sync.RWMutex.RLock", "sync.Cond.Wait", "chan receive", "chan send", "select", "sync.WaitGroup.Wait": // not the generic "semacquire": the runtime itself waits that way (stop-the-world, GC)
		default:
			continue
		}
		body := rest[j:]
		if e := bytes.Index(body, []byte("\n\n")); e >= 0 {
			body = body[:e]
		}
		lines := strings.Split(string(body), "\n")
		for _, ln := range lines[1:] {
			if strings.HasPrefix(ln, "\t") || ln == "" {
				continue
			}
			if strings.HasPrefix(ln, "runtime.") || strings.HasPrefix(ln, "sync.") || strings.HasPrefix(ln, "sync/") || strings.HasPrefix(ln, "internal/") {
				continue
			}
			// clover's own locks, and bbolt's (it has no goroutines of its own: a client that waits for its writer lock
			// or for the memory-map lock - a commit that must grow the file waits for every open read transaction -
			// waits for another client thread, which the scheduler may have parked)
			out[id] = strings.HasPrefix(ln, cloverModule) || (strings.HasPrefix(ln, "go.etcd.io/bbolt.") && strings.HasPrefix(state, "sync."))
			if out[id] && os.Getenv("VERIF_SCHED_DEBUG") == "2" {
				fmt.Fprintf(os.Stderr, "STALL goroutine %d [%s]\n%s\n\n", id, state, strings.Join(lines[:min(len(lines), 14)], "\n"))
			}
			break
		}
	}
	return out
}
