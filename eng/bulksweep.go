package eng

import (
	"fmt"
	"sort"
	"strings"

	"github.com/ostafen/clover/v2/document"
	"verif/drv"
	"verif/ev"
	"verif/m"
)

type BulkOp struct {
	Name string
	Op   func(n int) m.Op // operation on collection "a"
	Then func(n int) []m.Op
}

func bulkDoc(i int, pad int) m.Doc {
	d := m.Doc{"_id": ID(i + 1), "x": int64(i % 7), "y": int64(i), "g": int64(i % 3), "xy": int64((i * 5) % 11), "n": map[string]interface{}{"a": int64(i % 5), "b": "keep"}}
	if i%2 == 0 {
		d["opt"] = int64(i % 4) // only every other document carries this field
	}
	if pad > 0 {
		d["pad"] = strings.Repeat("p", pad)
	}
	return d
}

func BulkOps() []BulkOp {
	xge3 := m.Leaf("gte", "x", int64(3))
	all := func(c *m.Crit) *m.Q { return &m.Q{Coll: "a", Crit: c} }
	upd := func(style string, kv ...interface{}) *m.Updater {
		set := map[string]interface{}{}
		for i := 0; i+1 < len(kv); i += 2 {
			set[kv[i].(string)] = kv[i+1]
		}
		return &m.Updater{Set: set, Style: style}
	}
	mk := func(name string, op m.Op) BulkOp { return BulkOp{Name: name, Op: func(int) m.Op { return op }} }
	return []BulkOp{
		mk("delete-all", m.Op{K: "delete", Q: all(nil)}),
		mk("delete-indexed-field", m.Op{K: "delete", Q: all(xge3)}),
		mk("delete-unindexed-field", m.Op{K: "delete", Q: all(m.Leaf("eq", "g", int64(1)))}),
		mk("delete-sorted-window", m.Op{K: "delete", Q: &m.Q{Coll: "a", Crit: xge3, Sort: []m.SortOpt{{Field: "y", Dir: -1}}, SkipSet: true, Skip: 1, LimitSet: true, Limit: 4}}),
		mk("update-unrelated-field", m.Op{K: "update", Q: all(xge3), Set: map[string]interface{}{"z": int64(1)}}),
		mk("update-rewrites-filter-field", m.Op{K: "update", Q: all(xge3), Set: map[string]interface{}{"x": int64(100)}}),
		mk("update-moves-forward-in-index", m.Op{K: "updateFunc", Q: &m.Q{Coll: "a", Crit: m.Leaf("lte", "x", int64(4)), Sort: []m.SortOpt{{Field: "x", Dir: 1}}}, Upd: upd("inplace", "x", int64(5))}),
		mk("update-moves-backward-in-index", m.Op{K: "updateFunc", Q: &m.Q{Coll: "a", Crit: xge3, Sort: []m.SortOpt{{Field: "x", Dir: -1}}}, Upd: upd("copy", "x", int64(-1))}),
		mk("updatefunc-all-inplace", m.Op{K: "updateFunc", Q: all(nil), Upd: upd("inplace", "x", "s", "w", true)}),
		mk("updatefunc-sort-skip-limit", m.Op{K: "updateFunc", Q: &m.Q{Coll: "a", Sort: []m.SortOpt{{Field: "x", Dir: 1}}, SkipSet: true, Skip: 2, LimitSet: true, Limit: 5}, Upd: upd("copy", "x", int64(50))}),
		mk("updatefunc-window-nosort", m.Op{K: "updateFunc", Q: &m.Q{Coll: "a", Crit: xge3, SkipSet: true, Skip: 1, LimitSet: true, Limit: 3}, Upd: upd("inplace", "w", int64(9))}),
		mk("update-nested-field-by-path", m.Op{K: "update", Q: all(m.Leaf("gte", "n.a", int64(2))), Set: map[string]interface{}{"n.a": int64(77)}}),
		mk("updatefunc-nested-field-inplace", m.Op{K: "updateFunc", Q: &m.Q{Coll: "a", Crit: m.Leaf("lte", "n.a", int64(3)), Sort: []m.SortOpt{{Field: "n.a", Dir: 1}}}, Upd: upd("inplace", "n.a", int64(9))}),
		mk("updatefunc-replace-nested-object", m.Op{K: "updateFunc", Q: all(nil), Upd: upd("copy", "n", map[string]interface{}{"a": int64(1)})}),
		mk("delete-on-nested-field", m.Op{K: "delete", Q: all(m.Leaf("eq", "n.a", int64(0)))}),
		mk("update-adds-missing-indexed-field", m.Op{K: "update", Q: all(m.NotExists("opt")), Set: map[string]interface{}{"opt": int64(9)}}),
		mk("updatefunc-on-range-including-missing", m.Op{K: "updateFunc", Q: &m.Q{Coll: "a", Crit: m.Leaf("lte", "opt", int64(1)), Sort: []m.SortOpt{{Field: "opt", Dir: 1}}}, Upd: upd("inplace", "opt", int64(3))}),
		mk("delete-on-range-including-missing", m.Op{K: "delete", Q: all(m.Leaf("lt", "opt", int64(2)))}),
		{Name: "updatefunc-invalid-result-for-first", Op: func(n int) m.Op {
			return m.Op{K: "updateFunc", Q: all(nil), Upd: &m.Updater{Set: map[string]interface{}{"w": int64(1)}, Style: "copy", BadFor: ID(1)}}
		}},
		{Name: "updatefunc-invalid-result-in-the-middle", Op: func(n int) m.Op {
			return m.Op{K: "updateFunc", Q: &m.Q{Coll: "a", Crit: m.Leaf("gte", "x", int64(0))}, Upd: &m.Updater{Set: map[string]interface{}{"x": int64(50)}, Style: "inplace", BadFor: ID(n/2 + 1)}}
		}},
		// the new value differs from the old one only in its Go type (1 -> 1.0), or not at all: still an update of every matched document
		mk("update-type-only", m.Op{K: "update", Q: all(m.Leaf("eq", "g", int64(1))), Set: map[string]interface{}{"g": float64(1), "x": float64(2)}}),
		mk("updatefunc-same-value", m.Op{K: "updateFunc", Q: all(m.Leaf("eq", "g", int64(2))), Upd: upd("inplace", "g", int64(2))}),
		// two indexed fields rewritten at once; some documents already hold one of the two values (x == 1), later ones do not
		mk("update-two-indexed-fields", m.Op{K: "update", Q: all(nil), Set: map[string]interface{}{"x": int64(1), "xy": int64(0)}}),
		mk("updatefunc-remove", m.Op{K: "updateFunc", Q: all(m.Leaf("eq", "g", int64(0))), Upd: &m.Updater{Nil: true}}),
		{Name: "drop-and-recreate", Op: func(int) m.Op { return m.Op{K: "dropColl", Coll: "a"} }, Then: func(int) []m.Op {
			return []m.Op{{K: "createColl", Coll: "a"}, {K: "insert", Coll: "a", Docs: []m.Doc{bulkDoc(0, 0)}}}
		}},
		mk("create-index-on-existing", m.Op{K: "createIndex", Coll: "a", Field: "y"}),
		mk("create-index-prefix-sibling", m.Op{K: "createIndex", Coll: "a", Field: "g"}),
		mk("drop-index-x", m.Op{K: "dropIndex", Coll: "a", Field: "x"}),
	}
}

// BulkWindowOps: UpdateFunc and Delete over the full grid sort x skip x limit (each set or unset), so that every
// combination of bounded / unbounded / sorted / unsorted selection goes through the bulk-write path.
func BulkWindowOps() []BulkOp {
	out := []BulkOp{}
	sorts := map[string][]m.SortOpt{"nosort": nil, "sort+y": {{Field: "y", Dir: 1}}, "sort-x": {{Field: "x", Dir: -1}}, "sort+g-y": {{Field: "g", Dir: 1}, {Field: "y", Dir: -1}}}
	type win struct {
		name string
		set  bool
		v    int
	}
	skips := []win{{"", false, 0}, {"skip0", true, 0}, {"skip3", true, 3}, {"skip-1", true, -1}}
	limits := []win{{"", false, 0}, {"limit-1", true, -1}, {"limit0", true, 0}, {"limit4", true, 4}}
	for _, sn := range []string{"nosort", "sort+y", "sort-x", "sort+g-y"} {
		for _, sk := range skips {
			for _, li := range limits {
				for _, crit := range []*m.Crit{nil, m.Leaf("gte", "x", int64(2))} {
					q := &m.Q{Coll: "a", Crit: crit, Sort: sorts[sn], SkipSet: sk.set, Skip: sk.v, LimitSet: li.set, Limit: li.v}
					cn := "all"
					if crit != nil {
						cn = "x>=2"
					}
					name := fmt.Sprintf("window-%s-%s-%s-%s", cn, sn, sk.name, li.name)
					uq, dq := *q, *q
					out = append(out,
						BulkOp{Name: "updatefunc-" + name, Op: func(int) m.Op {
							return m.Op{K: "updateFunc", Q: &uq, Upd: &m.Updater{Set: map[string]interface{}{"w": int64(1), "x": int64(33)}, Style: "copy"}}
						}},
						BulkOp{Name: "delete-" + name, Op: func(int) m.Op { return m.Op{K: "delete", Q: &dq} }},
						BulkOp{Name: "update-" + name, Op: func(int) m.Op { return m.Op{K: "update", Q: &uq, Set: map[string]interface{}{"w": int64(2)}} }},
					)
				}
			}
		}
	}
	return out
}

// BulkOpsNamed returns the named subset of BulkOps.
func BulkOpsNamed(names ...string) []BulkOp {
	out := []BulkOp{}
	for _, o := range BulkOps() {
		for _, n := range names {
			if o.Name == n {
				out = append(out, o)
			}
		}
	}
	return out
}

type BulkConfig struct {
	Backends  []string
	Sizes     []int
	Pads      []int
	IndexSets [][]string
	Ops       []BulkOp
	OneByOne  bool // insert documents one transaction each instead of one batch
}

// BulkSweep: every collection size x padding x index set x bulk operation x backend (C03).
func BulkSweep(cfg *BulkConfig, run *ev.Run, ownTags map[string]bool) {
	type task struct {
		backend string
		n, pad  int
		idx     []string
		op      BulkOp
	}
	tasks := []task{}
	for _, b := range cfg.Backends {
		for _, n := range cfg.Sizes {
			for _, p := range cfg.Pads {
				for _, ix := range cfg.IndexSets {
					for _, op := range cfg.Ops {
						if op.Name == "drop-index-x" && !contains(ix, "x") {
							continue
						}
						tasks = append(tasks, task{b, n, p, ix, op})
					}
				}
			}
		}
	}
	insts := map[string]*drv.Inst{}
	scr := map[string]*drv.Inst{}
	lock := make(chan struct{}, 1)
	lock <- struct{}{}
	get := func(mp map[string]*drv.Inst, w int, backend string) *drv.Inst {
		<-lock
		defer func() { lock <- struct{}{} }()
		k := fmt.Sprintf("%d/%s", w, backend)
		if mp[k] == nil {
			mp[k] = drv.MustOpen(backend)
		}
		return mp[k]
	}
	defer func() {
		for _, i := range insts {
			i.Close()
		}
		for _, i := range scr {
			i.Close()
		}
	}()
	ParallelFor(len(tasks), 0, func(w, ti int) {
		t := tasks[ti]
		in := get(insts, w, t.backend)
		scratch := get(scr, w, t.backend)
		if _, err := in.Fresh(nil); err != nil {
			panic(err)
		}
		report := func(f Finding) {
			if !ownTags[f.Tag] {
				run.Blocked(f.Tag)
				return
			}
			sig := fmt.Sprintf("%s|%s|%s|idx=%s|pad=%d|%s", f.Tag, t.op.Name, t.backend, strings.Join(t.idx, "+"), t.pad, sizeClass(t.n))
			run.Violation(sig, fmt.Sprintf("[%s N=%d pad=%d idx=%v %s] %s", t.backend, t.n, t.pad, t.idx, t.op.Name, f.Msg),
				map[string]interface{}{"engine": "bulksweep", "backend": t.backend, "n": t.n, "pad": t.pad, "indexes": t.idx, "op": t.op.Op(t.n), "finding": f.Msg})
		}
		model := m.NewDB()
		setup := []m.Op{{K: "createColl", Coll: "a"}}
		for _, f := range t.idx {
			setup = append(setup, m.Op{K: "createIndex", Coll: "a", Field: f})
		}
		docs := make([]m.Doc, t.n)
		for i := range docs {
			docs[i] = bulkDoc(i, t.pad)
		}
		if cfg.OneByOne {
			for _, d := range docs {
				setup = append(setup, m.Op{K: "insert", Coll: "a", Docs: []m.Doc{d}})
			}
		} else {
			for lo := 0; lo < t.n; lo += 400 { // batches small enough for every store's transaction limit
				hi := lo + 400
				if hi > t.n {
					hi = t.n
				}
				setup = append(setup, m.Op{K: "insert", Coll: "a", Docs: docs[lo:hi]})
			}
		}
		// a second collection with a prefix-related name must never be touched
		setup = append(setup, m.Op{K: "createColl", Coll: "ab"}, m.Op{K: "createIndex", Coll: "ab", Field: "x"}, m.Op{K: "insert", Coll: "ab", Docs: []m.Doc{bulkDoc(0, 0), bulkDoc(1, 0)}})
		for _, o := range setup {
			_, next, fs := drv.Step(in, model, o)
			for _, f := range fs {
				report(Finding{Tag: "setup", Msg: "during setup: " + f.Msg})
			}
			model = next
		}
		op := t.op.Op(t.n)
		// the property's own oracle: what FindAll returns immediately before the call
		var pre []m.Doc
		var preErr error
		if op.Q != nil {
			pre, preErr, _ = drv.FindAllMaps(in, op.Q)
		}
		preModel := model
		res, next, fs := drv.Step(in, model, op)
		run.Add("evaluations", 1)
		run.Distinct("cases", fmt.Sprintf("%s/%d/%d/%v/%s", t.backend, t.n, t.pad, t.idx, t.op.Name))
		model = next
		for _, f := range fs {
			report(f)
		}
		if res.Panic != nil {
			return
		}
		if drv.StoreRefused(res.Err) {
			// refused by the store as a whole: nothing may have changed
			run.Add("operations_refused_by_the_store", 1)
			for _, f := range drv.AuditAPI(in, model, drv.AuditOpts{}) {
				report(f)
			}
			for _, f := range drv.AuditRaw(in, scratch, model) {
				report(f)
			}
			return
		}
		if res.Err != nil {
			if op.Upd != nil && op.Upd.BadFor != "" && preModel.Colls["a"].Docs[op.Upd.BadFor] != nil {
				// expected to fail: nothing may have changed
				for _, f := range drv.AuditAPI(in, model, drv.AuditOpts{}) {
					report(f)
				}
				for _, f := range drv.AuditRaw(in, scratch, model) {
					report(f)
				}
				return
			}
			report(Finding{Tag: "bulk-error", Msg: fmt.Sprintf("%s failed: %v", t.op.Name, res.Err)})
			return
		}
		if op.Q != nil && preErr == nil && (op.K == "updateFunc" || op.K == "delete" || op.K == "update") {
			preIDs := []string{}
			for _, d := range pre {
				preIDs = append(preIDs, d["_id"].(string))
			}
			sort.Strings(preIDs)
			if op.K == "updateFunc" {
				// the callback ran exactly once per document FindAll returned, on its pre-call value
				got := append([]string{}, res.Affected...)
				sort.Strings(got)
				windowed := op.Q.EffSkip() > 0 || op.Q.EffLimit() >= 0
				if !windowed && strings.Join(got, ",") != strings.Join(preIDs, ",") {
					report(Finding{Tag: "callback", Msg: fmt.Sprintf("the update function ran on %d documents (%s), FindAll immediately before returned %d (%s)", len(got), brief(got), len(preIDs), brief(preIDs))})
				}
				if windowed && len(got) != len(preIDs) {
					report(Finding{Tag: "callback", Msg: fmt.Sprintf("the update function ran %d times, FindAll immediately before returned %d documents", len(got), len(preIDs))})
				}
				seen := map[string]bool{}
				for i, id := range res.Affected {
					if seen[id] {
						report(Finding{Tag: "callback", Msg: fmt.Sprintf("the update function ran twice on %s", id)})
						break
					}
					seen[id] = true
					if want := preModel.Colls["a"].Docs[id]; want == nil || m.Canon(want) != res.PreVals[i] {
						report(Finding{Tag: "callback", Msg: fmt.Sprintf("the update function received %s for %s, its pre-call value is %s", res.PreVals[i], id, m.Canon(want))})
						break
					}
				}
			}
		}
		for _, o := range func() []m.Op {
			if t.op.Then != nil {
				return t.op.Then(t.n)
			}
			return nil
		}() {
			_, nx, fs := drv.Step(in, model, o)
			for _, f := range fs {
				report(f)
			}
			model = nx
		}
		for _, f := range drv.AuditAPI(in, model, drv.AuditOpts{}) {
			report(f)
		}
		for _, f := range drv.AuditRaw(in, scratch, model) {
			report(f)
		}
		if ti%211 == 0 {
			run.Sample(map[string]interface{}{"backend": t.backend, "documents": t.n, "padding": t.pad, "indexes": t.idx, "operation": t.op.Name})
		}
	})
	_ = document.ObjectIdField
}

func contains(s []string, x string) bool {
	for _, e := range s {
		if e == x {
			return true
		}
	}
	return false
}

func brief(ids []string) string {
	if len(ids) > 8 {
		return fmt.Sprintf("%s ... %s", shortID(ids[0]), shortID(ids[len(ids)-1]))
	}
	out := []string{}
	for _, id := range ids {
		out = append(out, shortID(id))
	}
	return strings.Join(out, ",")
}

func shortID(id string) string {
	return strings.TrimLeft(id[len(id)-12:], "0")
}

func sizeClass(n int) string {
	switch {
	case n == 0:
		return "N=0"
	case n < 16:
		return "N<16"
	case n < 64:
		return "N<64"
	case n < 256:
		return "N<256"
	}
	return "N>=256"
}

// NameLengthSweep: a collection whose name has every length from 1 to maxLen (and an index whose field name has the
// same length modulo 64): batch insert, bulk update, index-served query, drop - audited against the model on the given
// backends, so that no behaviour depends on how key buffers happen to be sized.
func NameLengthSweep(run *ev.Run, backends []string, maxLen int, ownTags map[string]bool) {
	type task struct {
		b string
		l int
	}
	tasks := []task{}
	for _, b := range backends {
		for l := 1; l <= maxLen; l++ {
			tasks = append(tasks, task{b, l})
		}
	}
	insts := map[string]*drv.Inst{}
	scr := map[string]*drv.Inst{}
	lock := make(chan struct{}, 1)
	lock <- struct{}{}
	get := func(mp map[string]*drv.Inst, w int, backend string) *drv.Inst {
		<-lock
		defer func() { lock <- struct{}{} }()
		k := fmt.Sprintf("%d/%s", w, backend)
		if mp[k] == nil {
			mp[k] = drv.MustOpen(backend)
		}
		return mp[k]
	}
	defer func() {
		for _, i := range insts {
			i.Close()
		}
		for _, i := range scr {
			i.Close()
		}
	}()
	ParallelFor(len(tasks), 0, func(w, ti int) {
		t := tasks[ti]
		in, scratch := get(insts, w, t.b), get(scr, w, t.b)
		if _, err := in.Fresh(nil); err != nil {
			panic(err)
		}
		name := strings.Repeat("n", t.l)
		field := strings.Repeat("f", t.l%64+1)
		model := m.NewDB()
		docs := []m.Doc{}
		for i := 0; i < 4; i++ {
			docs = append(docs, m.Doc{"_id": ID(i + 1), field: int64(i % 3), "v": fmt.Sprint(i)})
		}
		ops := []m.Op{
			{K: "createColl", Coll: name}, {K: "createIndex", Coll: name, Field: field}, {K: "insert", Coll: name, Docs: docs},
			{K: "update", Q: &m.Q{Coll: name, Crit: m.Leaf("gte", field, int64(1))}, Set: map[string]interface{}{field: int64(5)}},
			{K: "deleteById", Coll: name, Id: ID(1)},
			{K: "insert", Coll: name, Docs: []m.Doc{{"_id": ID(1), field: "s"}, {"_id": ID(9), field: nil}}},
		}
		for oi, o := range ops {
			_, next, fs := drv.Step(in, model, o)
			model = next
			if oi >= 2 {
				fs = append(fs, drv.AuditAPI(in, model, drv.AuditOpts{})...)
				fs = append(fs, drv.AuditRaw(in, scratch, model)...)
			}
			run.Add("evaluations", 1)
			for _, f := range fs {
				if !ownTags[f.Tag] {
					run.Blocked(f.Tag)
					continue
				}
				run.Violation(fmt.Sprintf("name-length|%s|%s|%s", f.Tag, t.b, o.K), fmt.Sprintf("[%s] collection name of %d bytes, after %s: %s", t.b, t.l, o.K, f.Msg),
					map[string]interface{}{"engine": "namelength", "backend": t.b, "collection_name_length": t.l, "field_name_length": len(field), "op": o.K, "finding": f.Msg})
			}
		}
		run.Distinct("cases", fmt.Sprintf("namelen/%s/%d", t.b, t.l))
	})
}
