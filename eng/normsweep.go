package eng

import (
	"fmt"
	"math"
	"reflect"
	"strings"
	"time"

	"github.com/ostafen/clover/v2/document"
	"verif/ev"
	"verif/m"
)

// RefNormalize is the reference normaliser written from the statement of C18.
// ok=false means "unsupported value" (the document must stay unchanged).
func RefNormalize(v interface{}) (out interface{}, ok bool) {
	if v == nil {
		return nil, true
	}
	return refNorm(reflect.ValueOf(v))
}

var timeType = reflect.TypeOf(time.Time{})

func refNorm(rv reflect.Value) (interface{}, bool) {
	for rv.Kind() == reflect.Ptr || rv.Kind() == reflect.Interface {
		if rv.IsNil() {
			return nil, true
		}
		rv = rv.Elem()
	}
	if rv.Type() == timeType {
		return rv.Interface().(time.Time), true
	}
	switch rv.Kind() {
	case reflect.Int, reflect.Int8, reflect.Int16, reflect.Int32, reflect.Int64:
		return rv.Int(), true
	case reflect.Uint, reflect.Uint8, reflect.Uint16, reflect.Uint32, reflect.Uint64:
		return rv.Uint(), true
	case reflect.Float32, reflect.Float64:
		return rv.Float(), true
	case reflect.String:
		return rv.String(), true
	case reflect.Bool:
		return rv.Bool(), true
	case reflect.Slice, reflect.Array:
		out := make([]interface{}, 0, rv.Len())
		for i := 0; i < rv.Len(); i++ {
			e, ok := refNorm(rv.Index(i))
			if !ok {
				return nil, false
			}
			out = append(out, e)
		}
		return out, true
	case reflect.Map:
		if rv.Type().Key().Kind() != reflect.String {
			return nil, false
		}
		out := map[string]interface{}{}
		for _, k := range rv.MapKeys() {
			e, ok := refNorm(rv.MapIndex(k))
			if !ok {
				return nil, false
			}
			out[k.String()] = e
		}
		return out, true
	case reflect.Struct:
		out := map[string]interface{}{}
		t := rv.Type()
		for i := 0; i < t.NumField(); i++ {
			f := t.Field(i)
			if f.PkgPath != "" {
				continue // unexported
			}
			name := f.Name
			tag := strings.Split(f.Tag.Get("clover"), ",")
			if tag[0] != "" {
				name = tag[0]
			}
			omitempty := len(tag) > 1 && tag[1] == "omitempty"
			fv := rv.Field(i)
			if omitempty && refEmpty(fv) {
				continue
			}
			e, ok := refNorm(fv)
			if !ok {
				return nil, false
			}
			if em, isMap := e.(map[string]interface{}); f.Anonymous && isMap {
				for k, x := range em {
					out[k] = x
				}
			} else {
				out[name] = e
			}
		}
		return out, true
	}
	return nil, false
}

// refEmpty: the conventional meaning of omitempty (as in encoding/json): false, 0, "", a nil pointer or
// interface, and any array, slice or map of length zero. A non-nil pointer is never empty, whatever it points to.
func refEmpty(v reflect.Value) bool {
	switch v.Kind() {
	case reflect.Array, reflect.Map, reflect.Slice, reflect.String:
		return v.Len() == 0
	case reflect.Bool:
		return !v.Bool()
	case reflect.Int, reflect.Int8, reflect.Int16, reflect.Int32, reflect.Int64:
		return v.Int() == 0
	case reflect.Uint, reflect.Uint8, reflect.Uint16, reflect.Uint32, reflect.Uint64, reflect.Uintptr:
		return v.Uint() == 0
	case reflect.Float32, reflect.Float64:
		return v.Float() == 0
	case reflect.Interface, reflect.Ptr:
		return v.IsNil()
	}
	return false
}

// NOmit: every kind of field under omitempty, in particular non-nil pointers / interfaces to zero values.
type NOmit struct {
	PI   *int           `clover:"pi,omitempty"`
	PB   *bool          `clover:"pb,omitempty"`
	PS   *string        `clover:"ps,omitempty"`
	PF   *float64       `clover:"pf,omitempty"`
	PP   **int          `clover:"pp,omitempty"`
	IF   interface{}    `clover:"if,omitempty"`
	SL   []int          `clover:"sl,omitempty"`
	MP   map[string]int `clover:"mp,omitempty"`
	AR   [0]int         `clover:"ar,omitempty"`
	ST   NInner         `clover:"st,omitempty"`
	PSt  *NInner        `clover:"pst,omitempty"`
	PSl  *[]int         `clover:"psl,omitempty"`
	B    bool           `clover:"b,omitempty"`
	I    int8           `clover:"i,omitempty"`
	U    uint16         `clover:"u,omitempty"`
	F    float32        `clover:"f,omitempty"`
	S    string         `clover:"s,omitempty"`
	Keep int            `clover:"keep"`
}

// ---- typed grammar ----

type NInner struct {
	X uint8
	Y *int32
}
type NEmbPtr struct {
	Z string `clover:"z"`
}
type NStruct struct {
	A      int    `clover:"a"`
	B      string `clover:"b,omitempty"`
	hidden int
	NInner
	*NEmbPtr
	T  time.Time
	P  *time.Time `clover:"p,omitempty"`
	L  []int8
	M  map[string]uint16
	In NInner  `clover:"in"`
	IP *NInner `clover:"ip,omitempty"`
	F  float32 `clover:"f,omitempty"`
	U  uint    `clover:"u,omitempty"`
}

type NRound struct {
	Id    string         `clover:"_id" json:"_id"`
	Name  string         `clover:"name" json:"name"`
	Count uint64         `clover:"count" json:"count"`
	Neg   int64          `clover:"neg" json:"neg"`
	Ratio float64        `clover:"ratio" json:"ratio"`
	Tags  []string       `clover:"tags" json:"tags"`
	Attrs map[string]int `clover:"attrs" json:"attrs"`
	Sub   NRoundSub      `clover:"sub" json:"sub"`
	Ptr   *NRoundSub     `clover:"ptr" json:"ptr"`
	When  time.Time      `clover:"when" json:"when"`
	Flag  bool           `clover:"flag" json:"flag"`
	Plain int16
	Opt   string `clover:"opt,omitempty" json:"opt,omitempty"`
}
type NRoundSub struct {
	K string `clover:"k" json:"k"`
	V int32  `clover:"v" json:"v"`
}

// NRename: the clover name, the json name and the Go field name all differ; embedded struct with tags.
type NRenameEmb struct {
	EI int8   `clover:"emb_i" json:"embI"`
	ES string `clover:"emb_s"`
}
type NRename struct {
	A int64        `clover:"ca" json:"ja"`
	B string       `clover:"cb" json:"jb,omitempty"`
	C bool         `json:"jc"`
	D []NRenameSub `clover:"cd" json:"jd"`
	NRenameEmb
}
type NRenameSub struct {
	X uint16 `clover:"cx" json:"jx"`
}

type typedCase struct {
	name string
	v    interface{}
}

func typedValues() []typedCase {
	out := []typedCase{}
	add := func(n string, v interface{}) { out = append(out, typedCase{n, v}) }
	add("nil", nil)
	for _, x := range []int64{math.MinInt64, -1, 0, 1, math.MaxInt64} {
		add(fmt.Sprintf("int64(%d)", x), x)
		add(fmt.Sprintf("int(%d)", x), int(x))
		if x >= math.MinInt32 && x <= math.MaxInt32 {
			add(fmt.Sprintf("int32(%d)", x), int32(x))
		}
		if x >= -128 && x <= 127 {
			add(fmt.Sprintf("int8(%d)", x), int8(x))
			add(fmt.Sprintf("int16(%d)", x), int16(x))
		}
	}
	add("int8 min", int8(math.MinInt8))
	add("int8 max", int8(math.MaxInt8))
	add("int16 min", int16(math.MinInt16))
	add("int16 max", int16(math.MaxInt16))
	add("int32 min", int32(math.MinInt32))
	add("int32 max", int32(math.MaxInt32))
	for _, x := range []uint64{0, 1, math.MaxUint8, math.MaxUint16, math.MaxUint32, math.MaxUint64} {
		add(fmt.Sprintf("uint64(%d)", x), x)
		add(fmt.Sprintf("uint(%d)", x), uint(x))
		if x <= math.MaxUint32 {
			add(fmt.Sprintf("uint32(%d)", x), uint32(x))
		}
		if x <= math.MaxUint16 {
			add(fmt.Sprintf("uint16(%d)", x), uint16(x))
		}
		if x <= math.MaxUint8 {
			add(fmt.Sprintf("uint8(%d)", x), uint8(x))
		}
	}
	add("float32", float32(1.5))
	add("float32 max", float32(math.MaxFloat32))
	add("float64", float64(-2.25))
	add("float64 inf", math.Inf(1))
	add("string", "s")
	add("empty string", "")
	add("bool", true)
	tm := time.Date(2024, 2, 29, 13, 14, 15, 123456789, time.FixedZone("x", 3600))
	add("time", tm)
	// pointers, depth 1..3, nil at every level
	i8, u16, s := int8(-7), uint16(9), "ptr"
	p1, q1, r1, t1 := &i8, &u16, &s, &tm
	p2, q2, t2 := &p1, &q1, &t1
	p3, t3 := &p2, &t2
	add("*int8", p1)
	add("**int8", p2)
	add("***int8", p3)
	add("*uint16", q1)
	add("**uint16", q2)
	add("*string", r1)
	add("*time.Time", t1)
	add("**time.Time", t2)
	add("***time.Time", t3)
	var np *int
	npp := &np
	nppp := &npp
	add("(*int)(nil)", np)
	add("**int -> nil", npp)
	add("***int -> nil", nppp)
	var nt *time.Time
	ntt := &nt
	add("(*time.Time)(nil)", nt)
	add("**time.Time -> nil", ntt)
	// containers
	add("[]int", []int{1, -2})
	add("[]uint8", []uint8{1, 2, 255})
	add("[2]uint8", [2]uint8{3, 4})
	add("[3]int16", [3]int16{1, 2, 3})
	add("empty []string", []string{})
	add("[][]string", [][]string{{"a"}, {}})
	add("[]interface{}", []interface{}{int8(1), "a", nil, p1, []uint16{5}, map[string]int8{"k": 1}})
	add("[]*int8", []*int8{p1, nil})
	add("map[string]int", map[string]int{"a": 1, "b": -1})
	add("map[string]interface{}", map[string]interface{}{"n": nil, "u": uint8(3), "m": map[string]float32{"f": 0.5}, "t": tm, "pt": t1})
	add("map[string]*uint16", map[string]*uint16{"q": q1, "nil": nil})
	add("empty map", map[string]interface{}{})
	y := int32(-5)
	st := NStruct{A: 1, B: "", hidden: 3, NInner: NInner{X: 200, Y: &y}, NEmbPtr: &NEmbPtr{Z: "zz"}, T: tm, P: nil, L: []int8{-1}, M: map[string]uint16{"m": 7}, In: NInner{X: 1}, IP: nil}
	add("struct", st)
	add("*struct", &st)
	st2 := st
	st2.B, st2.P, st2.IP, st2.F, st2.U = "bee", &tm, &NInner{X: 2, Y: nil}, 2.5, 9
	add("struct all set", st2)
	zi, zb, zs, zf := 0, false, "", 0.0
	pzi := &zi
	emptySl := []int{}
	add("omitempty all zero", NOmit{})
	add("omitempty pointers to zero values", NOmit{PI: &zi, PB: &zb, PS: &zs, PF: &zf, PP: &pzi, IF: 0, SL: []int{}, MP: map[string]int{}, PSt: &NInner{}, PSl: &emptySl})
	add("omitempty interface holding empty string", NOmit{IF: ""})
	add("omitempty interface holding nil pointer", NOmit{IF: (*int)(nil)})
	one, tr, str := 1, true, "x"
	add("omitempty all set", NOmit{PI: &one, PB: &tr, PS: &str, IF: 2.5, SL: []int{0}, MP: map[string]int{"k": 0}, ST: NInner{X: 1}, B: true, I: -1, U: 1, F: 0.5, S: "s", Keep: 1})
	add("[]struct", []NInner{{X: 1}, {X: 2, Y: &y}})
	add("map[string]struct", map[string]NInner{"k": {X: 3}})
	// unsupported
	add("chan", make(chan int))
	add("func", func() {})
	add("complex128", complex(1, 2))
	add("map[int]string", map[int]string{1: "a"})
	add("[]chan", []chan int{make(chan int)})
	add("map[string]func", map[string]func(){"f": func() {}})
	add("struct with chan", struct{ C chan int }{make(chan int)})
	return out
}

func valueInDomain(v interface{}) bool {
	switch x := v.(type) {
	case nil, bool, int64, uint64, float64, string, time.Time:
		return true
	case []interface{}:
		for _, e := range x {
			if !valueInDomain(e) {
				return false
			}
		}
		return true
	case map[string]interface{}:
		for _, e := range x {
			if !valueInDomain(e) {
				return false
			}
		}
		return true
	}
	return false
}

// NormSweep runs the typed grammar through Document.Set / NewDocumentOf and the path and round-trip checks (C18).
func NormSweep(run *ev.Run) {
	viol := func(kind, name, msg string) {
		run.Violation(kind+"|"+name, msg, map[string]interface{}{"engine": "normsweep", "case": name, "finding": msg})
	}
	guard := func(kind, name string, f func()) {
		defer func() {
			if p := recover(); p != nil {
				viol(kind+"-panic", name, fmt.Sprintf("%s: panicked: %v", name, p))
			}
		}()
		f()
	}
	cases := typedValues()
	for _, tc := range cases {
		tc := tc
		want, supported := RefNormalize(tc.v)
		run.Add("evaluations", 1)
		run.Distinct("typed_values", tc.name)
		guard("set", tc.name, func() {
			// into an empty document
			d := document.NewDocument()
			d.Set("f", tc.v)
			if !supported {
				if d.Has("f") {
					viol("unsupported-changed", tc.name, fmt.Sprintf("Set(f, %s): unsupported value, but the document now has f = %s", tc.name, m.Canon(d.Get("f"))))
				}
				d.Set("g", int64(1))
				d.Set("g", tc.v)
				if !m.Equal(d.Get("g"), int64(1)) {
					viol("unsupported-changed", tc.name, fmt.Sprintf("Set(g, %s): unsupported value overwrote the previous value with %s", tc.name, m.Canon(d.Get("g"))))
				}
				// through dotted paths: no intermediate object may appear, no scalar on the way may be replaced
				before := m.Canon(d.ToMap())
				for _, p := range []string{"p.q", "p.q.r", "g.h", "g.h.i"} {
					d.Set(p, tc.v)
				}
				if after := m.Canon(d.ToMap()); after != before {
					viol("unsupported-changed-path", tc.name, fmt.Sprintf("Set of the unsupported value %s through dotted paths changed the document: %s -> %s", tc.name, before, after))
				}
				return
			}
			got := d.Get("f")
			if !d.Has("f") {
				viol("set-missing", tc.name, fmt.Sprintf("Set(f, %s) stored nothing, expected %s", tc.name, m.Canon(want)))
				return
			}
			if !valueInDomain(got) || !m.Equal(got, want) {
				viol("set-value", tc.name, fmt.Sprintf("Set(f, %s) stored %s, the canonical form is %s", tc.name, m.Canon(got), m.Canon(want)))
				return
			}
			// idempotence: normalising the normalised value changes nothing
			d.Set("h", got)
			if !m.Equal(d.Get("h"), want) {
				viol("set-idempotent", tc.name, fmt.Sprintf("Set of the already normalised %s gives %s", m.Canon(want), m.Canon(d.Get("h"))))
			}
			// determinism
			d2 := document.NewDocument()
			d2.Set("f", tc.v)
			if !m.Equal(d2.Get("f"), got) {
				viol("set-deterministic", tc.name, "two Sets of the same value stored different values")
			}
			// nested placement: inside a map and a slice
			d3 := document.NewDocumentOf(map[string]interface{}{"w": map[string]interface{}{"v": tc.v}, "l": []interface{}{tc.v}})
			if d3 == nil {
				viol("newdoc-nil", tc.name, "NewDocumentOf(map holding the value) returned nil")
				return
			}
			if !m.Equal(d3.Get("w.v"), want) || !m.Equal(d3.Get("l"), []interface{}{want}) {
				viol("nested-value", tc.name, fmt.Sprintf("nested in a map / slice the value became %s / %s, expected %s", m.Canon(d3.Get("w.v")), m.Canon(d3.Get("l")), m.Canon(want)))
			}
		})
		guard("newdoc", tc.name, func() {
			d := document.NewDocumentOf(tc.v)
			wm, isMap := want.(map[string]interface{})
			if _, isDoc := tc.v.(*document.Document); isDoc {
				return
			}
			if supported && isMap && wm != nil {
				if d == nil {
					viol("newdocof", tc.name, fmt.Sprintf("NewDocumentOf(%s) = nil, expected fields %s", tc.name, m.Canon(want)))
				} else if !m.Equal(d.ToMap(), want) {
					viol("newdocof", tc.name, fmt.Sprintf("NewDocumentOf(%s) has fields %s, expected %s", tc.name, m.Canon(d.ToMap()), m.Canon(want)))
				}
			} else if d != nil && !(supported && isMap) {
				viol("newdocof-nonmap", tc.name, fmt.Sprintf("NewDocumentOf(%s) returned a document for a value that is not a map or struct", tc.name))
			}
		})
	}
	// dotted paths: Set / Get / Has agree, against the reference path semantics
	paths := []string{"a", "b", "a.b", "a.b.c", "a.c", "b.a"}
	vals := []interface{}{int64(1), nil, map[string]interface{}{"b": int64(2)}, map[string]interface{}{"b": map[string]interface{}{"c": "deep"}}}
	for _, p1 := range paths {
		for _, v1 := range vals {
			for _, p2 := range paths {
				for _, v2 := range vals {
					name := fmt.Sprintf("Set(%s,%s);Set(%s,%s)", p1, m.Canon(v1), p2, m.Canon(v2))
					guard("path", name, func() {
						d := document.NewDocument()
						ref := m.Doc{}
						d.Set(p1, m.Clone(v1))
						m.SetPath(ref, p1, m.Clone(v1))
						d.Set(p2, m.Clone(v2))
						m.SetPath(ref, p2, m.Clone(v2))
						run.Add("evaluations", 1)
						run.Distinct("path_states", m.Canon(ref))
						for _, p := range append(paths, "a.b.c.d", "zz", "b.a.x") {
							wv, wp := m.Lookup(ref, p)
							if d.Has(p) != wp || !m.Equal(d.Get(p), wv) {
								viol("path", fmt.Sprintf("Set(%s);Set(%s);%s", p1, p2, p), fmt.Sprintf("after %s: Has(%s)=%v Get=%s, expected %v / %s", name, p, d.Has(p), m.Canon(d.Get(p)), wp, m.Canon(wv)))
								return
							}
						}
						if !m.Equal(d.ToMap(), ref) {
							viol("path-map", fmt.Sprintf("Set(%s);Set(%s)", p1, p2), fmt.Sprintf("after %s the document is %s, expected %s", name, m.Canon(d.ToMap()), m.Canon(ref)))
						}
					})
				}
			}
		}
	}
	// values handed to Set / NewDocumentOf are converted, not adopted: the document must not share structure with the
	// caller's value, with another path of the same document or with another document
	guard("alias", "caller-map", func() {
		src := map[string]interface{}{"k": int(1), "n": map[string]interface{}{"z": int8(2)}, "l": []interface{}{int16(3)}}
		d := document.NewDocument()
		d.Set("f", src)
		run.Add("evaluations", 1)
		if _, still := src["k"].(int); !still {
			viol("alias", "caller-map", fmt.Sprintf("Set rewrote the caller's own map: k is now %T", src["k"]))
		}
		if _, still := src["n"].(map[string]interface{})["z"].(int8); !still {
			viol("alias", "caller-nested-map", "Set rewrote a map nested in the caller's value")
		}
		src["k"] = "changed"
		src["n"].(map[string]interface{})["z"] = "changed"
		src["l"].([]interface{})[0] = "changed"
		want := map[string]interface{}{"k": int64(1), "n": map[string]interface{}{"z": int64(2)}, "l": []interface{}{int64(3)}}
		if !m.Equal(d.Get("f"), want) {
			viol("alias", "caller-map-after", fmt.Sprintf("changing the caller's value after Set changed the document: %s", m.Canon(d.Get("f"))))
		}
	})
	guard("alias", "path-to-path", func() {
		d := document.NewDocument()
		d.Set("a", map[string]interface{}{"x": int64(1), "deep": map[string]interface{}{"y": int64(1)}})
		d.Set("b", d.Get("a"))
		d.Set("a.x", int64(2))
		d.Set("a.deep.y", int64(2))
		run.Add("evaluations", 1)
		if !m.Equal(d.Get("b.x"), int64(1)) || !m.Equal(d.Get("b.deep.y"), int64(1)) {
			viol("alias", "path-to-path", fmt.Sprintf("after Set(b, Get(a)), Set(a.x, 2) and Set(a.deep.y, 2): b = %s", m.Canon(d.Get("b"))))
		}
	})
	guard("alias", "two-documents", func() {
		src := map[string]interface{}{"k": int64(1), "n": map[string]interface{}{"z": int64(2)}}
		d1, d2 := document.NewDocumentOf(src), document.NewDocumentOf(src)
		run.Add("evaluations", 1)
		if d1 == nil || d2 == nil {
			viol("alias", "two-documents", "NewDocumentOf(map) returned nil")
			return
		}
		d1.Set("extra", true)
		d1.Set("n.z", int64(9))
		if d2.Has("extra") || !m.Equal(d2.Get("n.z"), int64(2)) {
			viol("alias", "two-documents", fmt.Sprintf("two documents built from one map share structure: the second is %s", m.Canon(d2.ToMap())))
		}
		if _, has := src["extra"]; has || !m.Equal(src["n"].(map[string]interface{})["z"], int64(2)) {
			viol("alias", "document-to-source", "writing to a document changed the map it was built from")
		}
		c := d2.Copy()
		c.Set("n.z", int64(7))
		c.Set("k", int64(7))
		if !m.Equal(d2.Get("n.z"), int64(2)) || !m.Equal(d2.Get("k"), int64(1)) {
			viol("alias", "copy", "writing to a Copy changed the original document")
		}
	})
	// struct -> document -> Unmarshal round trip
	tm := time.Date(2031, 7, 8, 9, 10, 11, 12, time.UTC)
	rounds := []NRound{
		{},
		{Id: ID(5), Name: "n", Count: math.MaxUint64, Neg: math.MinInt64, Ratio: -0.125, Tags: []string{"a", ""}, Attrs: map[string]int{"k": -3}, Sub: NRoundSub{K: "k", V: math.MinInt32}, Ptr: &NRoundSub{K: "p", V: 7}, When: tm, Flag: true, Plain: -9, Opt: "o"},
		{Id: ID(6), Count: 1 << 53, Neg: math.MaxInt64, Tags: []string{}, Attrs: map[string]int{}, When: tm.Add(time.Hour)},
	}
	for i, r := range rounds {
		name := fmt.Sprintf("roundtrip-%d", i)
		r := r
		guard("roundtrip", name, func() {
			d := document.NewDocumentOf(r)
			run.Add("evaluations", 1)
			if d == nil {
				viol("roundtrip", name, "NewDocumentOf(struct) returned nil")
				return
			}
			var back NRound
			if err := d.Unmarshal(&back); err != nil {
				viol("roundtrip", name, fmt.Sprintf("Unmarshal failed: %v", err))
				return
			}
			a, _ := RefNormalize(r)
			b, _ := RefNormalize(back)
			if !m.Equal(a, b) {
				viol("roundtrip", name, fmt.Sprintf("struct -> document -> Unmarshal changed the value: %s -> %s", m.Canon(a), m.Canon(b)))
			}
			if (r.Ptr == nil) != (back.Ptr == nil) || (r.Tags == nil) != (back.Tags == nil) && len(r.Tags) > 0 {
				viol("roundtrip", name, "nil-ness of pointer field changed")
			}
		})
	}
	for i, r := range []NRename{{}, {A: -5, B: "b", C: true, D: []NRenameSub{{X: 7}, {X: 0}}, NRenameEmb: NRenameEmb{EI: -3, ES: "e"}}} {
		name := fmt.Sprintf("rename-roundtrip-%d", i)
		r := r
		guard("roundtrip", name, func() {
			d := document.NewDocumentOf(r)
			run.Add("evaluations", 1)
			if d == nil {
				viol("roundtrip", name, "NewDocumentOf(struct) returned nil")
				return
			}
			want, _ := RefNormalize(r)
			if !m.Equal(d.ToMap(), want) {
				viol("roundtrip", name, fmt.Sprintf("NewDocumentOf gives %s, expected %s", m.Canon(d.ToMap()), m.Canon(want)))
			}
			var back NRename
			if err := d.Unmarshal(&back); err != nil {
				viol("roundtrip", name, fmt.Sprintf("Unmarshal failed: %v", err))
				return
			}
			b, _ := RefNormalize(back)
			if !m.Equal(want, b) {
				viol("roundtrip", name, fmt.Sprintf("struct -> document -> Unmarshal changed the value: %s -> %s", m.Canon(want), m.Canon(b)))
			}
		})
	}
	_ = reflect.DeepEqual
	run.Sample(map[string]interface{}{"typed_value": cases[20].name, "expected_canonical": m.Canon(func() interface{} { v, _ := RefNormalize(cases[20].v); return v }())})
	run.Sample(map[string]interface{}{"path_case": "Set(a.b,1);Set(a,nil) then Has/Get on a, b, a.b, a.b.c, a.c, b.a, a.b.c.d, zz, b.a.x"})
}
