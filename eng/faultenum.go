package eng

import (
	"fmt"

	"verif/drv"
	"verif/ev"
	"verif/m"
	"verif/vstore"
)

type FaultPre struct {
	Name string
	Ops  []m.Op
}

type FaultCase struct {
	Name    string
	Op      m.Op
	Read    bool
	OnlyPre string // restrict to one pre-state (expensive operations)
}

// FaultEnum: for every (backend, pre-state, operation): count the store calls of the kinds C04 names, then for
// every k re-run the operation from the restored pre-state with call k failing.
func FaultEnum(run *ev.Run, backends []string, pres []FaultPre, cases []FaultCase, ownTags map[string]bool) {
	type task struct {
		backend string
		pre     FaultPre
		c       FaultCase
	}
	tasks := []task{}
	for _, b := range backends {
		for _, p := range pres {
			for _, c := range cases {
				if c.OnlyPre != "" && c.OnlyPre != p.Name {
					continue
				}
				tasks = append(tasks, task{b, p, c})
			}
		}
	}
	insts := map[string]*drv.Inst{}
	lock := make(chan struct{}, 1)
	lock <- struct{}{}
	get := func(w int, backend string) *drv.Inst {
		<-lock
		defer func() { lock <- struct{}{} }()
		k := fmt.Sprintf("%d/%s", w, backend)
		if insts[k] == nil {
			insts[k] = drv.MustOpen(backend)
		}
		return insts[k]
	}
	defer func() {
		for _, i := range insts {
			i.Close()
		}
	}()
	ParallelFor(len(tasks), 0, func(w, ti int) {
		t := tasks[ti]
		in := get(w, t.backend)
		report := func(f Finding, k int, call string) {
			if !ownTags[f.Tag] {
				run.Blocked(f.Tag)
				return
			}
			sig := fmt.Sprintf("%s|%s|%s|pre=%s|%s", f.Tag, t.c.Name, t.backend, t.pre.Name, call)
			run.Violation(sig, fmt.Sprintf("[%s pre=%s op=%s failing call #%d (%s)] %s", t.backend, t.pre.Name, t.c.Name, k, call, f.Msg),
				map[string]interface{}{"engine": "faultenum", "backend": t.backend, "pre": t.pre.Ops, "op": t.c.Op, "failing_call_index": k, "failing_call": call, "finding": f.Msg})
		}
		// build the pre-state
		if _, err := in.Fresh(nil); err != nil {
			panic(err)
		}
		model := m.NewDB()
		for _, o := range t.pre.Ops {
			_, next, fs := drv.Step(in, model, o)
			for _, f := range fs {
				report(Finding{Tag: "setup", Msg: f.Msg}, -1, "setup")
			}
			model = next
		}
		snap := in.Dump()
		before := drv.CanonState(snap)
		// dry run
		in.V.ResetCounters()
		in.V.Record = true
		dry := drv.Exec(in, t.c.Op)
		nf := in.V.Faultable()
		trace := append([]vstore.Call{}, in.V.Trace...)
		in.V.Record = false
		if dry.Panic != nil {
			report(Finding{Tag: "panic", Msg: fmt.Sprintf("dry run panicked: %v", dry.Panic)}, -1, "none")
			return
		}
		// the fault-free run itself: its outcome must be what the reference model says (an operation that must fail
		// because of invalid input has to fail, without any effect)
		if !t.c.Read {
			in.Fresh(snap)
			_, next, fs := drv.Step(in, model, t.c.Op)
			for _, f := range fs {
				report(Finding{Tag: "fault-free-run", Msg: f.Msg}, -1, "none")
			}
			for _, f := range drv.AuditAPI(in, next, drv.AuditOpts{}) {
				if f.Tag == "state" || f.Tag == "count" || f.Tag == "indexquery" {
					report(Finding{Tag: "fault-free-run", Msg: f.Msg}, -1, "none")
				}
			}
		}
		kinds := []string{}
		for _, c := range trace {
			if c.FSeq >= 0 {
				kinds = append(kinds, c.Kind.String())
			}
		}
		run.Add("operations_enumerated", 1)
		thin := nf > 300
		if thin {
			run.Add("operations_with_thinned_fault_positions", 1)
		}
		for k := 0; k < nf; k++ {
			if thin && k >= 40 && k < nf-40 && k%53 != 0 {
				continue // operations making hundreds of store calls: first 40, last 40 and every 53rd position
			}
			if _, err := in.Fresh(snap); err != nil {
				panic(err)
			}
			in.V.FailAt = map[int]bool{k: true}
			res := drv.Exec(in, t.c.Op)
			fired := len(in.V.Failed) > 0
			in.V.FailAt = nil
			run.Add("evaluations", 1)
			call := "?"
			if k < len(kinds) {
				call = kinds[k]
			}
			if !fired {
				run.Add("fault_positions_not_reached", 1)
				continue
			}
			run.Distinct("fault_positions", fmt.Sprintf("%s/%s/%s/%d", t.backend, t.pre.Name, t.c.Name, k))
			if res.Panic != nil {
				report(Finding{Tag: "panic", Msg: fmt.Sprintf("panicked: %v", res.Panic)}, k, call)
				continue
			}
			if res.Leak != "" {
				report(Finding{Tag: "leak", Msg: "after the failed operation: " + res.Leak + " (a leaked write transaction blocks every later write)"}, k, call)
				continue
			}
			if res.Err == nil {
				report(Finding{Tag: "fault-swallowed", Msg: "the store reported a failure but the operation returned success"}, k, call)
			}
			after := drv.CanonState(in.Dump())
			if after != before {
				report(Finding{Tag: "fault-changed-state", Msg: fmt.Sprintf("the operation returned %v after the store failure, but the database content changed", res.Err)}, k, call)
				continue
			}
			// later operations on the same handle proceed normally: the same operation, now without a fault,
			// must behave exactly as the reference model says from the unchanged pre-state
			if !t.c.Read {
				r2, next, fs := drv.Step(in, model, t.c.Op)
				for _, f := range fs {
					report(Finding{Tag: "after-fault", Msg: "re-running the operation after the failed attempt: " + f.Msg}, k, call)
				}
				if r2.Panic == nil && r2.Leak == "" {
					for _, f := range drv.AuditAPI(in, next, drv.AuditOpts{}) {
						if f.Tag == "state" || f.Tag == "count" || f.Tag == "catalog-coll" || f.Tag == "catalog-index" || f.Tag == "indexquery" {
							report(Finding{Tag: "after-fault", Msg: "state after re-running the operation: " + f.Msg}, k, call)
						}
					}
				}
			} else {
				r2 := drv.Exec(in, t.c.Op)
				if r2.Panic != nil || r2.Class != dry.Class {
					report(Finding{Tag: "after-fault", Msg: fmt.Sprintf("re-running the read after the failed attempt gives %s, the fault-free run gave %s", r2, dry)}, k, call)
				}
			}
		}
		if ti%17 == 0 {
			run.Sample(map[string]interface{}{"backend": t.backend, "pre_state": t.pre.Name, "operation": t.c.Op, "store_calls_that_can_fail": kinds})
		}
	})
}
