package eng

import (
	"fmt"
	"os"
	"path/filepath"
	"strings"
	"time"

	"verif/drv"
	"verif/ev"
	"verif/m"
)

func jsonValues() []interface{} {
	leaves := []interface{}{nil, true, int64(5), int64(-3), uint64(7), float64(1.5), float64(1e10), int64(1 << 53), "s", "", "é\n\"q\"",
		time.Date(2024, 2, 29, 13, 14, 15, 123456789, time.UTC), time.Date(2001, 1, 1, 0, 0, 0, 0, time.FixedZone("", 2*3600))}
	out := append([]interface{}{}, leaves...)
	out = append(out, []interface{}{}, map[string]interface{}{})
	for i, l := range leaves {
		out = append(out, []interface{}{l}, map[string]interface{}{"k": l})
		if i%3 == 0 {
			out = append(out, []interface{}{l, leaves[(i+1)%len(leaves)]}, map[string]interface{}{"k": []interface{}{l}}, []interface{}{map[string]interface{}{"k": l}})
		}
	}
	return out
}

// JSONTyped: what a value becomes after a trip through JSON: numbers numerically equal (float64), times as
// their RFC 3339 text.
func JSONTyped(v interface{}) interface{} {
	switch x := v.(type) {
	case int64:
		return float64(x)
	case uint64:
		return float64(x)
	case time.Time:
		return x.Format(time.RFC3339Nano)
	case []interface{}:
		out := make([]interface{}, len(x))
		for i, e := range x {
			out[i] = JSONTyped(e)
		}
		return out
	case map[string]interface{}:
		out := map[string]interface{}{}
		for k, e := range x {
			out[k] = JSONTyped(e)
		}
		return out
	}
	return v
}

// JSONSweep: every collection of <= maxDocs documents over the JSON grammar is exported and imported (C19).
func JSONSweep(run *ev.Run, backend string, maxDocs int, stride int) {
	vals := jsonValues()
	docs := []m.Doc{}
	for i, v := range vals {
		d := m.Doc{"_id": ID(i + 1), "f": m.Clone(v)}
		if i%4 == 1 {
			d["g"] = map[string]interface{}{"h": m.Clone(vals[(i*7)%len(vals)])}
		}
		if i%5 == 2 {
			// field names that look like paths: a document built from a map keeps them as plain names, at the top
			// level and below; the copy must have the same field set, not nested objects
			d["v1.2"] = int64(i)
			d["o"] = map[string]interface{}{"a.b": "x", ".": nil}
		}
		docs = append(docs, d)
	}
	// all subsets of size <= maxDocs (index combinations), thinned by stride for the largest size
	combos := [][]int{{}}
	for i := range docs {
		combos = append(combos, []int{i})
	}
	if maxDocs >= 2 {
		for i := range docs {
			for j := i + 1; j < len(docs); j++ {
				combos = append(combos, []int{i, j})
			}
		}
	}
	if maxDocs >= 3 {
		n := 0
		for i := range docs {
			for j := i + 1; j < len(docs); j++ {
				for k := j + 1; k < len(docs); k++ {
					n++
					if n%stride == 0 {
						combos = append(combos, []int{i, j, k})
					}
				}
			}
		}
		if stride > 1 {
			run.Note(fmt.Sprintf("3-document collections thinned to every %d-th combination in this tier (1- and 2-document collections complete)", stride))
		}
	}
	insts := map[int]*drv.Inst{}
	lock := make(chan struct{}, 1)
	lock <- struct{}{}
	get := func(w int) *drv.Inst {
		<-lock
		defer func() { lock <- struct{}{} }()
		if insts[w] == nil {
			insts[w] = drv.MustOpen(backend)
		}
		return insts[w]
	}
	defer func() {
		for _, i := range insts {
			i.Close()
		}
	}()
	dir := drv.NewScratchDir()
	ParallelFor(len(combos), 0, func(w, ci int) {
		in := get(w)
		combo := combos[ci]
		for _, indexed := range []bool{false, true} {
			if _, err := in.Fresh(nil); err != nil {
				panic(err)
			}
			viol := func(kind, msg string) {
				ids := []string{}
				for _, i := range combo {
					ids = append(ids, m.Canon(docs[i]["f"]))
				}
				run.Violation(fmt.Sprintf("%s|%s|indexed=%v", kind, backend, indexed), fmt.Sprintf("[%s indexed=%v] collection with f values %v: %s", backend, indexed, ids, msg),
					map[string]interface{}{"engine": "jsonsweep", "backend": backend, "indexed": indexed, "f_values": ids, "finding": msg})
			}
			model := m.NewDB()
			setup := []m.Op{{K: "createColl", Coll: "src"}, {K: "createColl", Coll: "other"}, {K: "insert", Coll: "other", Docs: []m.Doc{{"_id": ID(1), "f": int64(1)}}}}
			if indexed {
				setup = append(setup, m.Op{K: "createIndex", Coll: "src", Field: "f"}, m.Op{K: "createIndex", Coll: "src", Field: "g.h"})
			}
			src := []m.Doc{}
			for _, i := range combo {
				src = append(src, docs[i])
			}
			if len(src) > 0 {
				setup = append(setup, m.Op{K: "insert", Coll: "src", Docs: src})
			}
			for _, o := range setup {
				_, next, fs := drv.Step(in, model, o)
				for _, f := range fs {
					viol("setup", f.Msg)
				}
				model = next
			}
			before := drv.CanonState(in.Dump())
			path := filepath.Join(dir, fmt.Sprintf("w%d.json", w))
			// the target already exists and is longer than what will be written
			os.WriteFile(path, []byte(strings.Repeat("stale content of a previous export ", 200)), 0o644)
			r := drv.Exec(in, m.Op{K: "export", Coll: "src", Text: path})
			run.Add("evaluations", 1)
			if r.Panic != nil || r.Err != nil {
				viol("export-error", fmt.Sprintf("ExportCollection failed: %s", r))
				continue
			}
			if drv.CanonState(in.Dump()) != before {
				viol("export-modified", "ExportCollection modified the database")
			}
			want := make([]m.Doc, len(src))
			for i, d := range src {
				want[i] = JSONTyped(d).(map[string]interface{})
			}
			_, next, fs := drv.Step(in, model, m.Op{K: "import", Coll: "imp", Text: path, Docs: want})
			run.Add("evaluations", 1)
			for _, f := range fs {
				viol("import-"+f.Tag, f.Msg)
			}
			model = next
			for _, f := range drv.AuditAPI(in, model, drv.AuditOpts{}) {
				viol("after-import-"+f.Tag, f.Msg)
			}
			run.Distinct("collections", fmt.Sprintf("%v/%v", combo, indexed))
		}
		if ci%499 == 0 {
			s := []interface{}{}
			for _, i := range combo {
				s = append(s, m.ToJSON(docs[i]))
			}
			run.Sample(map[string]interface{}{"backend": backend, "collection": s})
		}
	})
	// failure modes: nothing that existed may change
	in := get(0)
	in.Fresh(nil)
	model := m.NewDB()
	for _, o := range []m.Op{{K: "createColl", Coll: "src"}, {K: "createIndex", Coll: "src", Field: "f"}, {K: "insert", Coll: "src", Docs: docs[:5]}, {K: "createColl", Coll: "other"}} {
		_, model, _ = drv.Step(in, model, o)
	}
	good := filepath.Join(dir, "good.json")
	drv.Exec(in, m.Op{K: "export", Coll: "src", Text: good})
	bad := map[string]string{
		"truncated":         `[{"_id":"` + ID(1) + `","f":1}`,
		"garbage":           `this is not json`,
		"object-not-array":  `{"_id":"` + ID(1) + `"}`,
		"array-of-numbers":  `[1,2]`,
		"array-of-strings":  `["a"]`,
		"array-of-arrays":   `[[{"f":1}]]`,
		"array-with-null":   `[null]`,
		"mixed-object-null": `[{"_id":"` + ID(1) + `","f":1},null]`,
		"duplicate-ids":     `[{"_id":"` + ID(1) + `"},{"_id":"` + ID(1) + `"}]`,
		"malformed-id":      `[{"_id":"zz"}]`,
		"numeric-id":        `[{"_id":5}]`,
		"empty-file":        ``,
	}
	// a file whose documents carry no _id: imported with fresh generated ids
	noIDs := filepath.Join(dir, "no-ids.json")
	os.WriteFile(noIDs, []byte(`[{"x":1},{"x":2.5e3,"y":{"z":[1e2,"s"]}},{"x":9007199254740992}]`), 0o644)
	if r := drv.Exec(in, m.Op{K: "import", Coll: "noids", Text: noIDs}); r.Panic != nil || r.Err != nil {
		run.Violation("import-noids|"+backend, fmt.Sprintf("[%s] importing documents without _id failed: %s", backend, r), nil)
	} else {
		docsGot, _, _ := drv.FindAllMaps(in, &m.Q{Coll: "noids"})
		seenX := map[string]bool{}
		ids := map[string]bool{}
		for _, d := range docsGot {
			id, _ := d["_id"].(string)
			if !m.ValidID(id) || ids[id] {
				run.Violation("import-noids-id|"+backend, fmt.Sprintf("[%s] imported document got _id %q (not a fresh canonical UUID)", backend, id), nil)
			}
			ids[id] = true
			seenX[m.OrderCanon(d["x"])] = true
		}
		if len(docsGot) != 3 || !seenX[m.OrderCanon(float64(1))] || !seenX[m.OrderCanon(float64(2500))] || !seenX[m.OrderCanon(float64(9007199254740992))] {
			run.Violation("import-noids-values|"+backend, fmt.Sprintf("[%s] importing 3 documents without _id gave %d documents with x values %v", backend, len(docsGot), seenX), nil)
		}
		drv.Exec(in, m.Op{K: "dropColl", Coll: "noids"})
	}
	type fm struct{ name, coll, path string }
	modes := []fm{{"existing-name", "other", good}, {"existing-name-self", "src", good}, {"missing-file", "imp", filepath.Join(dir, "no-such-file.json")}, {"directory-as-file", "imp", dir}}
	for name, content := range bad {
		p := filepath.Join(dir, "bad-"+name+".json")
		os.WriteFile(p, []byte(content), 0o644)
		modes = append(modes, fm{name, "imp", p})
	}
	for _, md := range modes {
		before := drv.CanonState(in.Dump())
		r := drv.Exec(in, m.Op{K: "import", Coll: md.coll, Text: md.path})
		run.Add("evaluations", 1)
		run.Distinct("collections", "failure:"+md.name)
		w := map[string]interface{}{"engine": "jsonsweep", "failure_mode": md.name}
		if r.Panic != nil {
			run.Violation("import-panic|"+backend+"|"+md.name, fmt.Sprintf("[%s] ImportCollection (%s) panicked: %v", backend, md.name, r.Panic), w)
			continue
		}
		if r.Err == nil {
			run.Violation("import-accepted|"+backend+"|"+md.name, fmt.Sprintf("[%s] ImportCollection (%s) returned success", backend, md.name), w)
		}
		for _, f := range drv.AuditAPI(in, model, drv.AuditOpts{}) {
			if f.Tag != "catalog-coll" { // a left-over new collection is C04's concern; existing ones must be intact
				run.Violation("import-failure-altered|"+backend+"|"+md.name, fmt.Sprintf("[%s] failed import (%s) altered an existing collection: %s", backend, md.name, f.Msg), w)
			}
		}
		if drv.CanonState(in.Dump()) != before {
			run.Add("failed_imports_that_left_a_trace", 1)
			in.Fresh(nil)
			model = m.NewDB()
			for _, o := range []m.Op{{K: "createColl", Coll: "src"}, {K: "createIndex", Coll: "src", Field: "f"}, {K: "insert", Coll: "src", Docs: docs[:5]}, {K: "createColl", Coll: "other"}} {
				_, model, _ = drv.Step(in, model, o)
			}
		}
	}
}
