// Package eng holds the exploration engines. Every engine enumerates a finite space completely and runs each
// element against the real clover code.
package eng

import (
	"bytes"
	"fmt"
	"runtime"
	"runtime/debug"
	"sync"
	"sync/atomic"

	"verif/drv"
	"verif/m"
)

// OnWorkerPanic is set by the command: it turns a panic escaping a worker into a reported violation.
var OnWorkerPanic func(p interface{}, stack string)

// ParallelFor runs f(worker, i) for i in [0,n) on up to GOMAXPROCS workers. setup/teardown run once per worker.
func ParallelFor(n int, workers int, f func(w, i int)) {
	if workers <= 0 {
		workers = runtime.GOMAXPROCS(0)
	}
	if workers > n {
		workers = n
	}
	if workers < 1 {
		workers = 1
	}
	var next int64 = -1
	var wg sync.WaitGroup
	for w := 0; w < workers; w++ {
		wg.Add(1)
		go func(w int) {
			defer wg.Done()
			defer func() {
				// a panic that escapes here came out of the library through a harness path that is not wrapped by drv.Exec
				if p := recover(); p != nil {
					if OnWorkerPanic != nil {
						OnWorkerPanic(p, string(debug.Stack()))
					} else {
						panic(p)
					}
				}
			}()
			for {
				i := int(atomic.AddInt64(&next, 1))
				if i >= n {
					return
				}
				f(w, i)
			}
		}(w)
	}
	wg.Wait()
}

func ID(n int) string { return fmt.Sprintf("00000000-0000-4000-8000-%012d", n) }

// UsedIndex: did the traced store calls seek into an index key range (diagnostic / coverage only).
func UsedIndex(in *drv.Inst) (index bool, reverse bool) {
	for _, k := range in.V.SeekKeys {
		if bytes.Contains(k, []byte(";i:")) {
			index = true
		}
	}
	return index, in.V.ReverseCursor > 0
}

func docWith(id string, kv ...interface{}) m.Doc {
	d := m.Doc{"_id": id}
	for i := 0; i+1 < len(kv); i += 2 {
		m.SetPath(d, kv[i].(string), kv[i+1])
	}
	return d
}

type Finding = drv.Finding
