package eng

import (
	"fmt"
	"sync"

	"verif/drv"
	"verif/m"
)

// RacePass runs the scenario bodies on real, free-running goroutines (no scheduler, no hooks) so that a binary
// built with -race can observe unsynchronised accesses. It is sampling, and reported as such.
func RacePass(scs []*Scenario, backends []string, rounds int) (runs int) {
	for _, b := range backends {
		in := drv.MustOpen(b)
		for _, sc := range scs {
			for r := 0; r < rounds; r++ {
				if _, err := in.Fresh(nil); err != nil {
					panic(err)
				}
				for _, o := range sc.Setup {
					drv.Exec(in, o)
				}
				var wg sync.WaitGroup
				for _, ops := range sc.Threads {
					ops := ops
					wg.Add(1)
					go func() {
						defer wg.Done()
						for _, o := range ops {
							drv.Exec(in, o)
						}
					}()
				}
				wg.Wait()
				in.V.ForgetLeaks()
				runs++
			}
		}
		in.Close()
	}
	return runs
}

// WideScenario: 8 goroutines issuing mixed operations against two shared collections (race pass only).
func WideScenario() *Scenario {
	sc := &Scenario{Name: "wide-8-goroutines", Setup: []m.Op{{K: "createColl", Coll: "a"}, {K: "createIndex", Coll: "a", Field: "x"}, {K: "createColl", Coll: "b"}}}
	for t := 0; t < 8; t++ {
		id := ID(t%3 + 1)
		q := &m.Q{Coll: "a", Crit: m.Leaf("gte", "x", int64(t%3)), Sort: []m.SortOpt{{Field: "x", Dir: 1 - 2*(t%2)}}}
		sc.Threads = append(sc.Threads, []m.Op{
			{K: "insert", Coll: "a", Docs: []m.Doc{{"_id": id, "x": int64(t)}}},
			{K: "findAll", Q: q},
			{K: "update", Q: q, Set: map[string]interface{}{"x": int64(t + 1)}},
			{K: "count", Q: &m.Q{Coll: "a"}},
			{K: "insert", Coll: "b", Docs: []m.Doc{{"x": fmt.Sprint(t)}}},
			{K: "deleteById", Coll: "a", Id: id},
			{K: "createIndex", Coll: "b", Field: "x"},
			{K: "listColls"},
		})
	}
	return sc
}
