package eng

import (
	"fmt"
	"sync"

	"verif/drv"
	"verif/m"
)

// RacePass runs the scenario bodies on real, free-running goroutines (no scheduler, no hooks) so that a binary
// built with -race can observe unsynchronised accesses. It is sampling, and reported as such.
func RacePass(scs []*Scenario, backends []string, rounds int) (runs int) {
	type task struct {
		b  string
		sc *Scenario
	}
	tasks := []task{}
	for _, b := range backends {
		for _, sc := range scs {
			tasks = append(tasks, task{b, sc})
		}
	}
	var mu sync.Mutex
	ParallelFor(len(tasks), 0, func(w, i int) {
		t := tasks[i]
		in := drv.MustOpen(t.b)
		defer in.Close()
		n := rounds
		if len(t.sc.Threads) > 0 && len(t.sc.Threads[0]) > 0 && len(t.sc.Threads[0][0].Docs) > 100 {
			n = 2 // large batches: a couple of rounds are enough to expose unsynchronised accesses
		}
		for r := 0; r < n; r++ {
			if _, err := in.Fresh(nil); err != nil {
				panic(err)
			}
			for _, o := range t.sc.Setup {
				drv.Exec(in, o)
			}
			var wg sync.WaitGroup
			for _, ops := range t.sc.Threads {
				ops := ops
				wg.Add(1)
				go func() {
					defer wg.Done()
					for _, o := range ops {
						drv.Exec(in, o)
					}
				}()
			}
			wg.Wait()
			in.V.ForgetLeaks()
			mu.Lock()
			runs++
			mu.Unlock()
		}
	})
	return runs
}

// WideScenario: 8 goroutines issuing mixed operations against two shared collections (race pass only).
func WideScenario() *Scenario {
	sc := &Scenario{Name: "wide-8-goroutines", Setup: []m.Op{{K: "createColl", Coll: "a"}, {K: "createIndex", Coll: "a", Field: "x"}, {K: "createColl", Coll: "b"}}}
	for t := 0; t < 8; t++ {
		id := ID(t%3 + 1)
		q := &m.Q{Coll: "a", Crit: m.Leaf("gte", "x", int64(t%3)), Sort: []m.SortOpt{{Field: "x", Dir: 1 - 2*(t%2)}}}
		sc.Threads = append(sc.Threads, []m.Op{
			{K: "insert", Coll: "a", Docs: []m.Doc{{"_id": id, "x": int64(t)}}},
			{K: "findAll", Q: q},
			{K: "update", Q: q, Set: map[string]interface{}{"x": int64(t + 1)}},
			{K: "count", Q: &m.Q{Coll: "a"}},
			{K: "insert", Coll: "b", Docs: []m.Doc{{"x": fmt.Sprint(t)}}},
			{K: "deleteById", Coll: "a", Id: id},
			{K: "createIndex", Coll: "b", Field: "x"},
			{K: "listColls"},
		})
	}
	return sc
}
