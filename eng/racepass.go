package eng

import (
	"fmt"
	"sync"

	"verif/drv"
	"verif/m"
)

// RacePass runs the scenario bodies on real, free-running goroutines (no scheduler, no hooks) so that a binary
// built with -race can observe unsynchronised accesses. It is sampling, and reported as such.
func RacePass(scs []*Scenario, backends []string, rounds int) (runs int) {
	type task struct {
		b  string
		sc *Scenario
	}
	tasks := []task{}
	for _, b := range backends {
		for _, sc := range scs {
			tasks = append(tasks, task{b, sc})
		}
	}
	var mu sync.Mutex
	ParallelFor(len(tasks), 0, func(w, i int) {
		t := tasks[i]
		in := drv.MustOpen(t.b)
		defer in.Close()
		n := rounds
		if len(t.sc.Threads) > 0 && len(t.sc.Threads[0]) > 0 && len(t.sc.Threads[0][0].Docs) > 100 {
			n = 2 // large batches: a couple of rounds are enough to expose unsynchronised accesses
		}
		for r := 0; r < n; r++ {
			if _, err := in.Fresh(nil); err != nil {
				panic(err)
			}
			for _, o := range t.sc.Setup {
				drv.Exec(in, o)
			}
			var wg sync.WaitGroup
			for _, ops := range t.sc.Threads {
				ops := ops
				wg.Add(1)
				go func() {
					defer wg.Done()
					for _, o := range ops {
						drv.Exec(in, o)
					}
				}()
			}
			wg.Wait()
			in.V.ForgetLeaks()
			mu.Lock()
			runs++
			mu.Unlock()
		}
	})
	// DB.Close racing with running operations (the handle is discarded afterwards)
	for _, b := range backends {
		for r := 0; r < 3; r++ {
			in := drv.MustOpen(b)
			drv.Exec(in, m.Op{K: "createColl", Coll: "a"})
			drv.Exec(in, m.Op{K: "insert", Coll: "a", Docs: DefaultDataset()})
			var wg sync.WaitGroup
			for t := 0; t < 3; t++ {
				wg.Add(1)
				go func(t int) {
					defer wg.Done()
					for i := 0; i < 20; i++ {
						drv.Exec(in, m.Op{K: "count", Q: &m.Q{Coll: "a", Crit: m.Leaf("gte", "x", int64(t))}})
						drv.Exec(in, m.Op{K: "insert", Coll: "a", Docs: []m.Doc{{"x": int64(i)}}})
					}
				}(t)
			}
			wg.Add(1)
			go func() {
				defer wg.Done()
				db := in.DB
				safely(func() { db.Close() })
				safely(func() { db.Close() })
			}()
			wg.Wait()
			in.Abandon()
			runs++
		}
	}
	return runs
}

// WideScenario: 8 goroutines issuing mixed operations against two shared collections (race pass only).
func WideScenario() *Scenario {
	sc := &Scenario{Name: "wide-8-goroutines", Setup: []m.Op{{K: "createColl", Coll: "a"}, {K: "createIndex", Coll: "a", Field: "x"}, {K: "createColl", Coll: "b"}}}
	for t := 0; t < 8; t++ {
		id := ID(t%3 + 1)
		q := &m.Q{Coll: "a", Crit: m.Leaf("gte", "x", int64(t%3)), Sort: []m.SortOpt{{Field: "x", Dir: 1 - 2*(t%2)}}}
		sc.Threads = append(sc.Threads, []m.Op{
			{K: "insert", Coll: "a", Docs: []m.Doc{{"_id": id, "x": int64(t)}}},
			{K: "findAll", Q: q},
			{K: "update", Q: q, Set: map[string]interface{}{"x": int64(t + 1)}},
			{K: "count", Q: &m.Q{Coll: "a"}},
			{K: "insert", Coll: "b", Docs: []m.Doc{{"x": fmt.Sprint(t)}}},
			{K: "deleteById", Coll: "a", Id: id},
			{K: "createIndex", Coll: "b", Field: "x"},
			{K: "listColls"},
		})
	}
	return sc
}

// AllPathsScenario: several goroutines run the same diverse list of read operations (every criteria operator,
// sorts, windows, index-served and scan-served) with different literals against shared collections, plus document
// and query construction. Reads do not conflict, so any write to shared library state is a data race.
func AllPathsScenario() *Scenario {
	sc := &Scenario{Name: "all-read-paths", Setup: []m.Op{{K: "createColl", Coll: "a"}, {K: "createIndex", Coll: "a", Field: "x"}, {K: "createIndex", Coll: "a", Field: "n.a"}, {K: "insert", Coll: "a", Docs: DefaultDataset()}}}
	pats := []string{"^a", "b$", "a.", "^ab?$"}
	for t := 0; t < 4; t++ {
		v := int64(t)
		fy := m.FieldRef{Name: "y"}
		crits := []*m.Crit{
			m.Like("x", pats[t]), m.Like("y", pats[(t+1)%4]), m.Leaf("eq", "x", v), m.Leaf("neq", "x", v), m.Leaf("gt", "x", v), m.Leaf("lte", "x", float64(t)+0.5),
			m.In("x", v, "a", nil), m.Contains("y", v, "a"), m.Exists("n.a"), m.NotExists("x"), m.Func("hasX"), m.Leaf("gt", "x", fy), m.Leaf("eq", "x", "$y"),
			m.And(m.Leaf("gte", "x", v), m.Leaf("lt", "x", "ab")), m.Or(m.Like("x", pats[t]), m.Leaf("eq", "n.a", v)), m.Not(m.In("x", v)),
			m.Leaf("eq", "x", map[string]interface{}{"k": v}), m.Leaf("gte", "x", []interface{}{v}),
		}
		ops := []m.Op{}
		for i, c := range crits {
			q := &m.Q{Coll: "a", Crit: c}
			ops = append(ops, m.Op{K: "findAll", Q: q}, m.Op{K: "count", Q: q})
			if i%3 == 0 {
				ops = append(ops, m.Op{K: "findAll", Q: &m.Q{Coll: "a", Crit: c, Sort: []m.SortOpt{{Field: "x", Dir: 1 - 2*(t%2)}, {Field: "y", Dir: 1}}, SkipSet: true, Skip: 1, LimitSet: true, Limit: 3}},
					m.Op{K: "exists", Q: q}, m.Op{K: "findFirst", Q: q}, m.Op{K: "forEach", Q: q, Stop: 2})
			}
		}
		ops = append(ops, m.Op{K: "findById", Coll: "a", Id: ID(t + 1)}, m.Op{K: "listColls"}, m.Op{K: "listIndexes", Coll: "a"}, m.Op{K: "hasIndex", Coll: "a", Field: "x"},
			m.Op{K: "export", Coll: "a", Text: drv.WriteTemp(fmt.Sprintf("race-export-%d.json", t), "")})
		sc.Threads = append(sc.Threads, ops)
	}
	return sc
}
