package eng

import (
	"fmt"
	"math"
	"strings"
	"sync"
	"time"

	"github.com/ostafen/clover/v2/document"
	"github.com/ostafen/clover/v2/index"
	"github.com/ostafen/clover/v2/query"
	"verif/drv"
	"verif/ev"
	"verif/m"
)

// HostileCrits: criteria shapes that stress the planner's visitors.
func HostileCrits() []*m.Crit {
	fy := m.FieldRef{Name: "y"}
	x1 := m.Leaf("eq", "x", int64(1))
	return []*m.Crit{
		nil, x1,
		m.Not(m.In("x", int64(1))), m.Not(m.Like("x", "a")), m.NotExists("x"), m.Not(m.Exists("x")), m.Not(m.Contains("x", int64(1))), m.Not(m.Func("hasX")),
		m.Not(m.Not(m.Not(x1))), m.Not(m.Not(m.NotExists("x"))), m.Not(m.And(m.NotExists("x"), x1)), m.Not(m.Or(m.Not(m.In("x", nil)), m.Not(x1))),
		m.Leaf("gt", "x", fy), m.Leaf("eq", "x", "$y"), m.Leaf("lte", "x", m.FieldRef{Name: "x"}), m.Leaf("neq", "x", fy), m.In("x", fy, "$x"), m.Contains("x", fy),
		m.Leaf("gt", "x", nil), m.Leaf("lte", "x", nil), m.Leaf("eq", "x", nil), m.Leaf("neq", "x", nil), m.In("x"), m.Contains("x"), m.In("x", nil),
		m.Leaf("gt", "x", []interface{}{}), m.Leaf("lt", "x", map[string]interface{}{}), m.Leaf("eq", "x", map[string]interface{}{"k": []interface{}{nil}}),
		m.Leaf("gte", "x", time.Unix(0, 0).UTC()), m.Leaf("lt", "x", true), m.Like("x", "("), m.Like("x", ""),
		m.And(m.Leaf("gt", "x", int64(5)), m.Leaf("lt", "x", int64(1))), m.And(m.Leaf("gte", "x", "a"), m.Leaf("lte", "x", int64(1))),
		m.Or(m.And(x1, m.NotExists("y")), m.Not(m.Leaf("lt", "x", fy))), m.And(m.Func("never"), x1), m.Leaf("eq", "", int64(1)), m.Leaf("eq", "x.", int64(1)), m.Leaf("gt", ".", nil),
		m.Leaf("eq", "_id", int64(3)), m.Leaf("gt", "_id", nil), m.Leaf("eq", strings.Repeat("a.", 300)+"z", int64(1)), m.Exists(strings.Repeat("n.", 50) + "a"),
		// a constant bound on a field and-ed with a criteria on the SAME field that has no constant bound (both orders)
		m.And(m.Leaf("gt", "x", int64(0)), m.In("x", int64(1), int64(2))), m.And(m.In("x", int64(1)), m.Leaf("lte", "x", int64(2))), m.And(x1, m.Exists("x")), m.And(m.Leaf("lt", "x", int64(3)), m.Like("x", "a")),
		m.And(m.Leaf("gte", "x", int64(1)), m.Contains("x", int64(1))), m.And(m.Leaf("gt", "x", int64(0)), m.Leaf("gt", "x", fy)), m.And(m.Leaf("lte", "x", int64(2)), m.Leaf("gt", "x", nil)), m.And(x1, m.Not(m.In("x", int64(1)))),
		m.Leaf("eq", "arr.k", int64(1)), m.Contains("arr", map[string]interface{}{"k": int64(1)}), m.Leaf("gt", "arr", []interface{}{map[string]interface{}{"k": int64(0)}}),
	}
}

// nonCanonicalIDDocs: _id values that the library's own validation accepts although they are not in the canonical
// 36-character form (no dashes, braces, urn prefix, upper case).
func nonCanonicalIDDocs() []m.Doc {
	return []m.Doc{
		{"_id": "6ba7b8109dad11d180b400c04fd430c8", "x": int64(1), "y": "a"},
		{"_id": "{6ba7b811-9dad-11d1-80b4-00c04fd430c8}", "x": int64(2), "y": "b"},
		{"_id": "urn:uuid:6ba7b812-9dad-11d1-80b4-00c04fd430c8", "x": int64(3), "y": "c"},
		{"_id": "6BA7B813-9DAD-11D1-80B4-00C04FD430C8", "x": int64(4), "y": "d"},
		{"_id": ID(5), "x": int64(5), "y": "e"},
	}
}

// HostileSweep: every public DB operation x database situation x hostile criteria x sort/window (C20).
func HostileSweep(run *ev.Run, backend string) {
	situations := []struct {
		name  string
		setup []m.Op
		close bool
	}{
		{"missing-collection", nil, false},
		{"empty-collection", []m.Op{{K: "createColl", Coll: "a"}}, false},
		{"populated", []m.Op{{K: "createColl", Coll: "a"}, {K: "insert", Coll: "a", Docs: append(DefaultDataset(), m.Doc{"_id": ID(50), "arr": []interface{}{map[string]interface{}{"k": int64(1)}, map[string]interface{}{"k": int64(1), "j": nil}, int64(3)}})}}, false},
		{"populated+index-x", []m.Op{{K: "createColl", Coll: "a"}, {K: "createIndex", Coll: "a", Field: "x"}, {K: "insert", Coll: "a", Docs: DefaultDataset()}}, false},
		{"populated+indexes-x-y-n.a", []m.Op{{K: "createColl", Coll: "a"}, {K: "insert", Coll: "a", Docs: DefaultDataset()}, {K: "createIndex", Coll: "a", Field: "x"}, {K: "createIndex", Coll: "a", Field: "y"}, {K: "createIndex", Coll: "a", Field: "n.a"}}, false},
		{"indexed+non-canonical-uuid-ids", []m.Op{{K: "createColl", Coll: "a"}, {K: "createIndex", Coll: "a", Field: "x"}, {K: "createIndex", Coll: "a", Field: "y"}, {K: "insert", Coll: "a", Docs: nonCanonicalIDDocs()}}, false},
		{"closed-handle", []m.Op{{K: "createColl", Coll: "a"}, {K: "createIndex", Coll: "a", Field: "x"}, {K: "insert", Coll: "a", Docs: DefaultDataset()}}, true},
	}
	shapes := []Shape{{}, {Sort: []m.SortOpt{{Field: "x", Dir: -1}}}, {Sort: []m.SortOpt{{Field: "y", Dir: 1}, {Field: "x", Dir: 0}}, SkipSet: true, Skip: 1, LimitSet: true, Limit: 2},
		{SortDef: true, LimitSet: true, Limit: 0}, {SkipSet: true, Skip: 100, LimitSet: true, Limit: -5}, {Sort: []m.SortOpt{{Field: "", Dir: 1}}},
		{SkipSet: true, Skip: math.MaxInt64, LimitSet: true, Limit: math.MaxInt64}, {Sort: []m.SortOpt{{Field: "x", Dir: math.MinInt64}}, SkipSet: true, Skip: math.MinInt64, LimitSet: true, Limit: math.MinInt64}}
	crits := HostileCrits()
	tmp := drv.WriteTemp("hostile-export.json", "")
	imp := drv.WriteTemp("hostile-import.json", `[{"x":1}]`)
	badImports := []string{}
	for i, content := range []string{`[null]`, `[{"a":1},null]`, `null`, `[]`, `{}`, `[1]`, `[[null]]`, `[{"_id":null}]`, `[{"_id":{}}]`, `[{"_expiresAt":"x"}]`, `[{"":{"":null}}]`, `[{"a":1e400}]`, ``, `[`} {
		badImports = append(badImports, drv.WriteTemp(fmt.Sprintf("hostile-import-%d.json", i), content))
	}
	for _, sit := range situations {
		in := drv.MustOpen(backend)
		for _, o := range sit.setup {
			if r := drv.Exec(in, o); r.Panic != nil || r.Err != nil {
				run.Violation("setup|"+backend+"|"+sit.name, fmt.Sprintf("setup %s failed: %s", o, r), nil)
			}
		}
		snap := in.Dump()
		if sit.close {
			if err := in.DB.Close(); err != nil {
				run.Violation("close-error|"+backend, fmt.Sprintf("Close failed: %v", err), nil)
			}
		}
		hung := false
		try := func(o m.Op) {
			if hung {
				return
			}
			// watchdog: an operation that has not returned after a minute is reported as blocking forever
			done := make(chan *drv.Result, 1)
			go func() { done <- drv.Exec(in, o) }()
			var r *drv.Result
			select {
			case r = <-done:
			case <-time.After(60 * time.Second):
				hung = true
				run.Violation(fmt.Sprintf("hang|%s|%s|%s", backend, sit.name, opSkel(o)), fmt.Sprintf("[%s %s] %s did not return within 60 s (earlier calls in this situation: %d)", backend, sit.name, o, run.Get("evaluations")),
					map[string]interface{}{"engine": "hostile", "backend": backend, "situation": sit.name, "setup": sit.setup, "op": o})
				return
			}
			run.Add("evaluations", 1)
			run.Distinct("calls", fmt.Sprintf("%s/%s/%s", backend, sit.name, opSkel(o)))
			w := map[string]interface{}{"engine": "hostile", "backend": backend, "situation": sit.name, "setup": sit.setup, "op": o}
			if r.Panic != nil {
				run.Violation(fmt.Sprintf("panic|%s|%s|%s", backend, sit.name, opSkel(o)), fmt.Sprintf("[%s %s] %s panicked: %v", backend, sit.name, o, r.Panic), w)
			}
			if r.Leak != "" {
				run.Violation(fmt.Sprintf("leak|%s|%s|%s", backend, sit.name, opSkel(o)), fmt.Sprintf("[%s %s] %s: %s - later writes would block forever", backend, sit.name, o, r.Leak), w)
				in.V.ForgetLeaks()
			}
			if sit.close && r.Panic == nil && r.Err == nil && o.K != "export" {
				run.Add("calls_succeeding_on_closed_handle", 1)
			}
		}
		restore := func() {
			if !sit.close {
				if _, err := in.Fresh(snap); err != nil {
					panic(err)
				}
			}
		}
		for _, coll := range []string{"a", "zz"} {
			for ci, c := range crits {
				if coll == "zz" && ci%4 != 0 {
					continue // on the missing collection every fourth criteria shape is enough: the calls fail before evaluating it
				}
				for _, s := range shapes {
					q := s.Apply(coll, c)
					for _, k := range []string{"findAll", "count", "exists", "findFirst"} {
						try(m.Op{K: k, Q: q})
					}
					try(m.Op{K: "forEach", Q: q, Stop: 1})
					try(m.Op{K: "iterateDocs", Q: q})
					if s.SortDef || len(s.Sort) == 2 || c == nil {
						continue // writes on a subset of shapes: each needs the state restored
					}
					try(m.Op{K: "update", Q: q, Set: map[string]interface{}{"z": int64(1)}})
					try(m.Op{K: "updateFunc", Q: q, Upd: &m.Updater{Set: map[string]interface{}{"x": nil}, Style: "inplace"}})
					try(m.Op{K: "delete", Q: q})
					try(m.Op{K: "createByQuery", Coll: "cq", Q: q})
					restore()
				}
			}
			for _, o := range []m.Op{
				{K: "createColl", Coll: coll}, {K: "hasColl", Coll: coll}, {K: "listColls"}, {K: "createIndex", Coll: coll, Field: "x"}, {K: "createIndex", Coll: coll, Field: ""},
				{K: "hasIndex", Coll: coll, Field: "x"}, {K: "hasIndex", Coll: coll, Field: "nope"}, {K: "listIndexes", Coll: coll}, {K: "dropIndex", Coll: coll, Field: "x"}, {K: "dropIndex", Coll: coll, Field: "nope"},
				{K: "insert", Coll: coll, Docs: []m.Doc{{"x": int64(1)}}}, {K: "insertOne", Coll: coll, Docs: []m.Doc{{"x": int64(1)}}}, {K: "insertOne", Coll: coll, Docs: []m.Doc{{"_id": "bad"}}}, {K: "insert", Coll: coll, Docs: []m.Doc{}}, {K: "insert", Coll: coll, Docs: []m.Doc{{"_id": []interface{}{}}}},
				{K: "insert", Coll: coll, Docs: []m.Doc{{"_id": ID(1)}, {"_id": ID(1)}}}, {K: "insert", Coll: coll, Docs: []m.Doc{{"_expiresAt": int64(5)}}},
				{K: "save", Coll: coll, Docs: []m.Doc{{"x": int64(1)}}}, {K: "save", Coll: coll, Docs: []m.Doc{{"_id": ID(77)}}}, {K: "save", Coll: coll, Docs: []m.Doc{{"_id": int64(1)}}},
				{K: "replaceById", Coll: coll, Id: ID(1), Docs: []m.Doc{{"_id": ID(1)}}}, {K: "replaceById", Coll: coll, Id: "", Docs: []m.Doc{{}}}, {K: "replaceById", Coll: coll, Id: ID(99), Docs: []m.Doc{{"_id": ID(99)}}},
				{K: "updateById", Coll: coll, Id: ID(1), Upd: &m.Updater{Set: map[string]interface{}{"_id": nil}, Style: "inplace"}}, {K: "updateById", Coll: coll, Id: "garbage", Upd: &m.Updater{Style: "copy"}}, {K: "updateById", Coll: coll, Id: ID(1), Upd: &m.Updater{Nil: true}},
				{K: "deleteById", Coll: coll, Id: ID(1)}, {K: "deleteById", Coll: coll, Id: ""}, {K: "deleteById", Coll: coll, Id: "x;y"},
				{K: "findById", Coll: coll, Id: ID(1)}, {K: "findById", Coll: coll, Id: ""}, {K: "findById", Coll: coll, Id: "not-a-uuid"},
				{K: "export", Coll: coll, Text: tmp}, {K: "export", Coll: coll, Text: "/nonexistent-dir/x.json"}, {K: "import", Coll: coll, Text: imp}, {K: "import", Coll: "fresh", Text: imp}, {K: "import", Coll: "fresh2", Text: "/nonexistent"},
				{K: "dropColl", Coll: coll},
			} {
				try(o)
				restore()
			}
			for _, f := range badImports {
				try(m.Op{K: "import", Coll: "imp" + coll, Text: f})
				restore()
			}
		}
		if hung {
			in.Abandon()
			continue
		}
		if sit.close {
			if p := safely(func() { in.DB.Close() }); p != nil {
				run.Violation("panic|"+backend+"|second-close", fmt.Sprintf("second Close panicked: %v", p), nil)
			}
			in.Abandon()
		} else {
			in.Close()
		}
		run.Sample(map[string]interface{}{"backend": backend, "situation": sit.name, "criteria_shapes": len(crits), "sort_window_shapes": len(shapes)})
	}
}

// ConcurrentClose: Close called from several goroutines at once with nothing else running must not panic (the only
// part of this sweep whose interleaving is left to the Go scheduler: 12 rounds per backend).
func ConcurrentClose(run *ev.Run, backend string) {
	for r := 0; r < 12; r++ {
		in := drv.MustOpen(backend)
		drv.Exec(in, m.Op{K: "createColl", Coll: "a"})
		drv.Exec(in, m.Op{K: "insert", Coll: "a", Docs: DefaultDataset()})
		db := in.DB
		var wg sync.WaitGroup
		var mu sync.Mutex
		panics := []string{}
		start := make(chan struct{})
		for g := 0; g < 4; g++ {
			wg.Add(1)
			go func() {
				defer wg.Done()
				<-start
				if p := safely(func() { db.Close() }); p != nil {
					mu.Lock()
					panics = append(panics, fmt.Sprint(p))
					mu.Unlock()
				}
			}()
		}
		close(start)
		wg.Wait()
		run.Add("evaluations", 1)
		run.Distinct("calls", backend+"/concurrent-close")
		in.Abandon()
		if len(panics) > 0 {
			run.Violation("panic|"+backend+"|concurrent-close", fmt.Sprintf("[%s] Close called from 4 goroutines at once panicked: %v", backend, panics), map[string]interface{}{"engine": "hostile", "backend": backend, "call": "4 concurrent Close"})
			return
		}
	}
}

// APISweep: document, query and index API calls with edge arguments (C20).
func APISweep(run *ev.Run) {
	try := func(name string, f func()) {
		run.Add("evaluations", 1)
		run.Distinct("calls", "api/"+name)
		if p := safely(f); p != nil {
			run.Violation("panic|api|"+name, fmt.Sprintf("%s panicked: %v", name, p), map[string]interface{}{"engine": "apisweep", "call": name})
		}
	}
	paths := []string{"", ".", "..", "a.", ".a", "a..b", "a.b.c.d.e", "_id", "_expiresAt", "é", "a b"}
	for _, p := range paths {
		p := p
		try("Document.Set/Get/Has "+fmt.Sprintf("%q", p), func() {
			d := document.NewDocument()
			d.Set(p, int64(1))
			d.Get(p)
			d.Has(p)
			d.Set(p, map[string]interface{}{"k": nil})
			d.Set(p+".k", []interface{}{})
			d.Get(p + ".k.z")
			d.Has(p + ".k.z")
			d.Fields(true)
			d.Fields(false)
			d.ToMap()
			d.AsMap()
			d.Copy()
			d.ObjectId()
			d.ExpiresAt()
			d.TTL()
			document.Validate(d)
			document.Encode(d)
		})
	}
	try("NewDocumentOf(non-maps)", func() {
		for _, v := range []interface{}{nil, int64(5), "s", []interface{}{}, (*int)(nil), struct{}{}, map[string]interface{}(nil), map[int]int{1: 1}, make(chan int)} {
			if d := document.NewDocumentOf(v); d != nil {
				d.Fields(true)
				d.ObjectId()
			}
		}
	})
	try("Document.SetAll(nil)/Unmarshal", func() {
		d := document.NewDocument()
		d.SetAll(nil)
		d.SetAll(map[string]interface{}{})
		var s struct{ A int }
		d.Unmarshal(&s)
		d.Unmarshal(s)
		var i int
		d.Unmarshal(&i)
		d.SetExpiresAt(time.Time{})
		d.TTL()
		d.Set("_expiresAt", "x")
		d.ExpiresAt()
		d.TTL()
		document.Validate(d)
	})
	try("Decode(garbage)", func() {
		for _, b := range [][]byte{nil, {}, {0xc1}, {0x81}, []byte("{}"), {0x91, 0x01}} {
			document.Decode(b)
		}
	})
	try("Query builders", func() {
		q := query.NewQuery("")
		q = q.Skip(-5).Limit(-3).Skip(0).Limit(0).Sort().Sort(query.SortOption{}).Sort(query.SortOption{Field: "", Direction: -9})
		q = q.Where(nil)
		q.Collection()
		q.Criteria()
		q.GetLimit()
		q.GetSkip()
		q.SortOptions()
		q.MatchFunc(func(*document.Document) bool { return true })
	})
	try("Criteria builders and Satisfy on empty documents", func() {
		d := document.NewDocument()
		f := query.Field("")
		for _, c := range []query.Criteria{f.Exists(), f.NotExists(), f.IsNil(), f.IsTrue(), f.IsFalse(), f.IsNilOrNotExists(), f.Eq(nil), f.Gt(nil), f.In(), f.Contains(), f.Like(""), f.Like("("), f.Neq(nil)} {
			c.Satisfy(d)
			c.Not().Satisfy(d)
			c.And(c).Or(c.Not()).Satisfy(d)
		}
	})
	try("Satisfy with literals of every Go numeric kind (not normalised by the caller)", func() {
		d := document.NewDocument()
		d.Set("x", 1)
		d.Set("y", []interface{}{1, 2.5})
		f := query.Field("x")
		for _, lit := range []interface{}{int(1), int8(1), int16(1), int32(1), uint(1), uint8(1), uint16(1), uint32(1), float32(1), int64(1), uint64(1), float64(1)} {
			for _, c := range []query.Criteria{f.Eq(lit), f.Neq(lit), f.Gt(lit), f.LtEq(lit), f.In(lit, "a"), query.Field("y").Contains(lit)} {
				c.Satisfy(d)
			}
		}
	})
	try("index.Range edge cases", func() {
		for _, r := range []*index.Range{{}, {Start: int64(1)}, {End: "a"}, {Start: "a", End: int64(1), StartIncluded: true, EndIncluded: true}, {Start: []interface{}{}, End: map[string]interface{}{}}} {
			r.IsEmpty()
			r.IsNil()
			r.Intersect(&index.Range{})
			(&index.Range{}).Intersect(r)
		}
	})
}

// KindLiteralSweep: IterateDocs (exported, does not go through FindAll's normalisation) with criteria whose
// literals are plain Go ints etc.
func KindLiteralSweep(run *ev.Run, backend string) {
	for _, indexed := range []bool{false, true} {
		in := drv.MustOpen(backend)
		drv.Exec(in, m.Op{K: "createColl", Coll: "a"})
		if indexed {
			// with an index on the field the un-normalised literal also reaches the planner and the index range encoder
			drv.Exec(in, m.Op{K: "createIndex", Coll: "a", Field: "x"})
		}
		drv.Exec(in, m.Op{K: "insert", Coll: "a", Docs: DefaultDataset()})
		for _, kind := range drv.NumericKinds {
			for _, op := range []string{"eq", "neq", "gt", "gte", "lt", "lte", "in"} {
				c := m.Leaf(op, "x", int64(1))
				if op == "in" {
					c = &m.Crit{Op: "in", Field: "x", Vals: []interface{}{int64(1), int64(2)}}
				}
				c.Kind = kind
				o := m.Op{K: "iterateDocs", Q: &m.Q{Coll: "a", Crit: c}}
				r := drv.Exec(in, o)
				run.Add("evaluations", 1)
				run.Distinct("calls", fmt.Sprintf("iterateDocs/%s/%s/indexed=%v", kind, op, indexed))
				if r.Panic != nil {
					run.Violation(fmt.Sprintf("panic|%s|iterateDocs|literal-%s", backend, kind), fmt.Sprintf("[%s] IterateDocs with criteria x %s %s(1) (index on x: %v) panicked: %v", backend, op, kind, indexed, r.Panic), map[string]interface{}{"engine": "hostile", "op": o, "indexed": indexed})
				}
				in.V.ForgetLeaks()
			}
		}
		in.Close()
	}
}

// ErrorPathTwins: operations that fail in the middle of a scan - a consumer returning its own error at each
// position, an index built over a value too long for any index key, an update function failing half-way - must
// end the same way on every backend: an error (never a panic), no transaction or cursor left open, nothing changed.
func ErrorPathTwins(run *ev.Run, backends []string, tag string) {
	type outcome struct{ class, state string }
	results := map[string]map[string]outcome{}
	long := strings.Repeat("L", 70000)
	for _, backend := range backends {
		results[backend] = map[string]outcome{}
		for _, indexed := range []bool{false, true} {
			in := drv.MustOpen(backend)
			drv.Exec(in, m.Op{K: "createColl", Coll: "a"})
			if indexed {
				drv.Exec(in, m.Op{K: "createIndex", Coll: "a", Field: "x"})
			}
			drv.Exec(in, m.Op{K: "insert", Coll: "a", Docs: DefaultDataset()})
			drv.Exec(in, m.Op{K: "insert", Coll: "a", Docs: []m.Doc{{"_id": ID(900), "big": long}}})
			n := len(DefaultDataset()) + 1
			ops := map[string]m.Op{"createIndex-over-too-long-value": {K: "createIndex", Coll: "a", Field: "big"},
				"updateFunc-invalid-result-midway": {K: "updateFunc", Q: &m.Q{Coll: "a"}, Upd: &m.Updater{Set: map[string]interface{}{"w": int64(1)}, Style: "copy", BadFor: ID(5)}}}
			for _, q := range []*m.Q{{Coll: "a"}, {Coll: "a", Crit: m.Leaf("gte", "x", int64(0))}, {Coll: "a", Sort: []m.SortOpt{{Field: "x", Dir: 1}}}, {Coll: "a", Sort: []m.SortOpt{{Field: "y", Dir: -1}}}} {
				for _, stop := range []int{1, 2, n - 1, n} {
					ops[fmt.Sprintf("iterateDocs-consumer-error-at-%d/%s", stop, opSkel(m.Op{K: "iterateDocs", Q: q}))] = m.Op{K: "iterateDocs", Q: q, Stop: stop}
				}
			}
			for name, o := range ops {
				before := drv.CanonState(in.Dump())
				r := drv.Exec(in, o)
				run.Add("evaluations", 1)
				key := fmt.Sprintf("%s/indexed=%v", name, indexed)
				run.Distinct("error_paths", key)
				class := "ok"
				switch {
				case r.Panic != nil:
					class = "panic"
				case r.Err != nil:
					class = "error"
				}
				if r.Leak != "" {
					class += "+leak"
				}
				oc := outcome{class: class}
				if drv.CanonState(in.Dump()) != before {
					oc.state = "changed"
				}
				results[backend][key] = oc
				if r.Panic != nil || r.Leak != "" || oc.state != "" {
					run.Violation(fmt.Sprintf("%s|errorpath|%s|%s", tag, backend, name), fmt.Sprintf("[%s] %s (index on x: %v): %s; state %s", backend, name, indexed, r, map[bool]string{true: "changed", false: "unchanged"}[oc.state != ""]),
						map[string]interface{}{"engine": "hostile", "op": o, "backend": backend, "indexed": indexed})
					in.V.ForgetLeaks()
					if r.Panic != nil {
						break
					}
				}
			}
			in.Close()
		}
	}
	for key, a := range results[backends[0]] {
		for _, b := range backends[1:] {
			if ob, ok := results[b][key]; ok && ob != a {
				run.Violation(fmt.Sprintf("%s|errorpath-differs|%s", tag, key), fmt.Sprintf("%s ends as %q on %s and as %q on %s", key, a.class+a.state, backends[0], ob.class+ob.state, b), nil)
			}
		}
	}
}
