// Package vstore wraps a real clover store.Store (the bundled bbolt / badger adapters) and instruments every
// call: counting, fault injection at the k-th call, hooks for kill points / scheduling points / snapshots,
// leak tracking of transactions and cursors, and a raw dump of the key space.
package vstore

import (
	"bytes"
	"errors"
	"fmt"
	"sort"
	"sync"

	"github.com/ostafen/clover/v2/store"
)

type Kind int

const (
	Begin Kind = iota
	Get
	Set
	Delete
	Cursor
	Seek
	Next
	Valid
	Item
	CursorClose
	Commit
	Rollback
	NKinds
)

var kindNames = [...]string{"begin", "get", "set", "delete", "cursor", "seek", "next", "valid", "item", "cursorclose", "commit", "rollback"}

func (k Kind) String() string {
	if int(k) >= len(kindNames) {
		return "none"
	}
	return kindNames[k]
}

// Faultable: the six kinds of store call property C04 names.
func (k Kind) Faultable() bool {
	return k == Begin || k == Get || k == Set || k == Delete || k == Item || k == Commit
}

var ErrInjected = errors.New("vstore: injected store failure")

// Call describes one store call about to be made.
type Call struct {
	Kind   Kind
	Seq    int  // index among all calls since ResetCounters
	FSeq   int  // index among faultable calls (-1 if not faultable)
	Update bool // for Begin: write transaction requested; otherwise: the call belongs to a write transaction
	Key    []byte
	TxID   int
	Done   bool // Commit/Rollback on a transaction that has already ended (clover's deferred Rollback after Commit)
}

type Store struct {
	Inner store.Store

	mu       sync.Mutex
	Counts   [NKinds]int
	seq      int
	fseq     int
	nextTx   int
	FailAt   map[int]bool // faultable-call indices to fail
	Failed   []Call       // faults that actually fired
	Hook     func(c Call) // called before every store call (outside the lock)
	PostHook func(c Call) // called after the call returned
	openTx   map[int]bool // tx id -> update?
	openCur  int
	Trace    []Call // recorded when Record is on
	Record   bool
	// PoisonAfterTx: values and keys handed out by Get / Item are private copies that are overwritten with garbage
	// when their transaction ends. bbolt hands out slices of its memory map that are only valid during the
	// transaction (it is free to reuse the page for anything afterwards): with this flag any use of store memory
	// after the transaction shows deterministically instead of only when a page happens to be recycled.
	PoisonAfterTx bool
	// Poisoned: a leaked transaction was observed at some point; the instance must be abandoned, never closed
	Poisoned bool

	// plan observations
	SeekKeys      [][]byte
	ReverseCursor int
	ForwardCursor int
}

func Wrap(inner store.Store) *Store {
	return &Store{Inner: inner, openTx: map[int]bool{}}
}

func (s *Store) ResetCounters() {
	s.mu.Lock()
	defer s.mu.Unlock()
	s.Counts = [NKinds]int{}
	s.seq, s.fseq = 0, 0
	s.Failed = nil
	s.Trace = nil
	s.SeekKeys = nil
	s.ReverseCursor, s.ForwardCursor = 0, 0
}

func (s *Store) Faultable() int { s.mu.Lock(); defer s.mu.Unlock(); return s.fseq }
func (s *Store) Total() int     { s.mu.Lock(); defer s.mu.Unlock(); return s.seq }

// Leaks reports transactions / cursors still open.
func (s *Store) Leaks() (openTx, openWriteTx, openCursors int) {
	s.mu.Lock()
	defer s.mu.Unlock()
	for _, upd := range s.openTx {
		openTx++
		if upd {
			openWriteTx++
		}
	}
	return openTx, openWriteTx, s.openCur
}

// ForgetLeaks clears the leak bookkeeping (used after a violation has been reported and the instance is discarded).
func (s *Store) ForgetLeaks() {
	s.mu.Lock()
	defer s.mu.Unlock()
	if len(s.openTx) > 0 {
		s.Poisoned = true // a transaction was left open below: closing or rewriting this store may block forever
	}
	s.openTx = map[int]bool{}
	s.openCur = 0
}

// enter registers a call, runs the hook and decides whether to inject a failure.
func (s *Store) enter(k Kind, update bool, key []byte, txid int) (Call, bool) {
	s.mu.Lock()
	c := Call{Kind: k, Seq: s.seq, FSeq: -1, Update: update, Key: key, TxID: txid}
	s.seq++
	s.Counts[k]++
	fail := false
	if k.Faultable() {
		c.FSeq = s.fseq
		s.fseq++
		if s.FailAt != nil && s.FailAt[c.FSeq] {
			fail = true
			s.Failed = append(s.Failed, c)
		}
	}
	if s.Record {
		cc := c
		cc.Key = append([]byte{}, key...)
		s.Trace = append(s.Trace, cc)
	}
	hook := s.Hook
	s.mu.Unlock()
	if hook != nil {
		hook(c)
	}
	return c, fail
}

// enterTx is enter for Commit/Rollback; it flags calls on an already finished transaction.
func (s *Store) enterTx(k Kind, t *vtx) (Call, bool) {
	if !t.done {
		return s.enter(k, t.update, nil, t.id)
	}
	s.mu.Lock()
	c := Call{Kind: k, Seq: s.seq, FSeq: -1, Update: t.update, TxID: t.id, Done: true}
	s.seq++
	s.Counts[k]++
	hook := s.Hook
	s.mu.Unlock()
	if hook != nil {
		hook(c)
	}
	return c, false
}

func (s *Store) leave(c Call) {
	if h := s.PostHook; h != nil {
		h(c)
	}
}

func (s *Store) Begin(update bool) (store.Tx, error) {
	s.mu.Lock()
	id := s.nextTx
	s.nextTx++
	s.mu.Unlock()
	c, fail := s.enter(Begin, update, nil, id)
	defer s.leave(c)
	if fail {
		return nil, ErrInjected
	}
	tx, err := s.Inner.Begin(update)
	if err != nil {
		return tx, err
	}
	s.mu.Lock()
	s.openTx[id] = update
	s.mu.Unlock()
	return &vtx{s: s, tx: tx, id: id, update: update}, nil
}

func (s *Store) Close() error { return s.Inner.Close() }

type vtx struct {
	s      *Store
	tx     store.Tx
	id     int
	update bool
	done   bool
	lent   [][]byte
}

// lend returns what the caller may look at until the transaction ends.
func (t *vtx) lend(b []byte) []byte {
	if !t.s.PoisonAfterTx || len(b) == 0 {
		return b
	}
	c := append([]byte{}, b...)
	t.lent = append(t.lent, c)
	return c
}

func (t *vtx) finish() {
	if !t.done {
		for _, b := range t.lent {
			for i := range b {
				b[i] = 0xDE
			}
		}
		t.lent = nil
		t.done = true
		t.s.mu.Lock()
		delete(t.s.openTx, t.id)
		t.s.mu.Unlock()
	}
}

func (t *vtx) Set(key, value []byte) error {
	c, fail := t.s.enter(Set, t.update, key, t.id)
	defer t.s.leave(c)
	if fail {
		return ErrInjected
	}
	return t.tx.Set(key, value)
}

func (t *vtx) Get(key []byte) ([]byte, error) {
	c, fail := t.s.enter(Get, t.update, key, t.id)
	defer t.s.leave(c)
	if fail {
		return nil, ErrInjected
	}
	v, err := t.tx.Get(key)
	return t.lend(v), err
}

func (t *vtx) Delete(key []byte) error {
	c, fail := t.s.enter(Delete, t.update, key, t.id)
	defer t.s.leave(c)
	if fail {
		return ErrInjected
	}
	return t.tx.Delete(key)
}

func (t *vtx) Cursor(forward bool) (store.Cursor, error) {
	c, _ := t.s.enter(Cursor, t.update, nil, t.id)
	defer t.s.leave(c)
	cur, err := t.tx.Cursor(forward)
	if err != nil {
		return cur, err
	}
	t.s.mu.Lock()
	t.s.openCur++
	if forward {
		t.s.ForwardCursor++
	} else {
		t.s.ReverseCursor++
	}
	t.s.mu.Unlock()
	return &vcur{t: t, c: cur}, nil
}

func (t *vtx) Commit() error {
	c, fail := t.s.enterTx(Commit, t)
	defer t.s.leave(c)
	if fail {
		t.tx.Rollback()
		t.finish()
		return ErrInjected
	}
	err := t.tx.Commit()
	t.finish()
	return err
}

func (t *vtx) Rollback() error {
	c, _ := t.s.enterTx(Rollback, t)
	defer t.s.leave(c)
	err := t.tx.Rollback()
	t.finish()
	return err
}

type vcur struct {
	t      *vtx
	c      store.Cursor
	closed bool
}

func (c *vcur) Seek(key []byte) error {
	cl, _ := c.t.s.enter(Seek, c.t.update, key, c.t.id)
	defer c.t.s.leave(cl)
	c.t.s.mu.Lock()
	c.t.s.SeekKeys = append(c.t.s.SeekKeys, append([]byte{}, key...))
	c.t.s.mu.Unlock()
	return c.c.Seek(key)
}

func (c *vcur) Next() {
	cl, _ := c.t.s.enter(Next, c.t.update, nil, c.t.id)
	defer c.t.s.leave(cl)
	c.c.Next()
}

func (c *vcur) Valid() bool {
	cl, _ := c.t.s.enter(Valid, c.t.update, nil, c.t.id)
	defer c.t.s.leave(cl)
	return c.c.Valid()
}

func (c *vcur) Item() (store.Item, error) {
	cl, fail := c.t.s.enter(Item, c.t.update, nil, c.t.id)
	defer c.t.s.leave(cl)
	if fail {
		return store.Item{}, ErrInjected
	}
	it, err := c.c.Item()
	it.Key, it.Value = c.t.lend(it.Key), c.t.lend(it.Value)
	return it, err
}

func (c *vcur) Close() error {
	cl, _ := c.t.s.enter(CursorClose, c.t.update, nil, c.t.id)
	defer c.t.s.leave(cl)
	if !c.closed {
		c.closed = true
		c.t.s.mu.Lock()
		c.t.s.openCur--
		c.t.s.mu.Unlock()
	}
	return c.c.Close()
}

// ---- raw access (not instrumented) ----

type KV struct{ K, V []byte }

// Dump returns every key/value of the wrapped store in key order, read through a fresh read transaction.
func Dump(st store.Store) ([]KV, error) {
	tx, err := st.Begin(false)
	if err != nil {
		return nil, err
	}
	defer tx.Rollback()
	cur, err := tx.Cursor(true)
	if err != nil {
		return nil, err
	}
	defer cur.Close()
	out := []KV{}
	if err := cur.Seek([]byte{}); err != nil {
		return nil, err
	}
	for ; cur.Valid(); cur.Next() {
		it, err := cur.Item()
		if err != nil {
			return nil, err
		}
		out = append(out, KV{K: append([]byte{}, it.Key...), V: append([]byte{}, it.Value...)})
	}
	sort.Slice(out, func(i, j int) bool { return bytes.Compare(out[i].K, out[j].K) < 0 })
	return out, nil
}

// Restore makes the store content equal to kvs (wipe, then set) in one write transaction.
func Restore(st store.Store, kvs []KV) error {
	cur, err := Dump(st)
	if err != nil {
		return err
	}
	tx, err := st.Begin(true)
	if err != nil {
		return err
	}
	defer tx.Rollback()
	want := map[string][]byte{}
	for _, kv := range kvs {
		want[string(kv.K)] = kv.V
	}
	for _, kv := range cur {
		if _, keep := want[string(kv.K)]; !keep {
			if err := tx.Delete(kv.K); err != nil {
				return err
			}
		}
	}
	have := map[string][]byte{}
	for _, kv := range cur {
		have[string(kv.K)] = kv.V
	}
	for _, kv := range kvs {
		if old, ok := have[string(kv.K)]; ok && bytes.Equal(old, kv.V) {
			continue
		}
		v := kv.V
		if len(v) == 0 {
			v = nil
		}
		if err := tx.Set(kv.K, v); err != nil {
			return err
		}
	}
	return tx.Commit()
}

func (c Call) String() string {
	return fmt.Sprintf("#%d %s tx%d %q", c.Seq, c.Kind, c.TxID, c.Key)
}
