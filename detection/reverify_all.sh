#!/bin/bash
# Re-runs, against every seeded change, the checks recorded as detecting it (plus the check of its own property), then
# every reverted fix and every deliberate change. Needs exclusive use of /repo (patches its working tree, restores it).
cd "$(dirname "$0")/.."
for d in seeded/seed*/; do
  n=$(basename $d)
  ids=$(python3 -c "import json;m=json.load(open('$d/meta.json'));print(' '.join(sorted(set([m['property']]+m.get('detected_by',[])))))")
  timeout 2400 python3 detection/run_seeded.py check $n $ids 2>&1 | tail -1
  git -C /repo checkout -- . 2>/dev/null
done
python3 detection/revert_fixes.py 2>&1 | tail -40
python3 detection/run_mutants.py 2>&1 | tail -40
python3 detection/summary.py > /dev/null
