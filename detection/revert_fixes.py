#!/usr/bin/env python3
"""Detection demonstration with real bugs: for every `fix:` commit recorded in known_findings.json, revert it in
/repo's working tree (never committed), run the targeted check (must report a VIOLATION) and restore the tree.
The pre-fix code passed the repository's own suite, so each reverted fix is a realistic property-breaking change.
Usage: detection/revert_fixes.py [hash ...]   -> writes detection/fix_reverts.json"""
import json, re, subprocess, sys, os, time

ROOT = os.path.dirname(os.path.dirname(os.path.abspath(__file__)))

def sh(cmd, **kw):
    return subprocess.run(cmd, shell=True, capture_output=True, text=True, **kw)

def main():
    kf = json.load(open(os.path.join(ROOT, 'known_findings.json')))
    want = set(sys.argv[1:])
    results = []
    if sh('git -C /repo status --porcelain --untracked-files=no').stdout.strip().replace(' M test/data/airlines.json', '').strip():
        print('refusing: /repo has uncommitted changes'); sys.exit(2)
    for line in kf['fixed']:
        mt = re.match(r'fixed: property=(C\d+) ([0-9a-f]+) (.*)', line)
        prop, h, what = mt.groups()
        if want and h not in want:
            continue
        also = re.findall(r'C\d\d', what.split('(also')[-1]) if '(also' in what else []
        r = sh(f'git -C /repo revert --no-commit {h}')
        entry = {'commit': h, 'property': prop, 'what': what}
        if r.returncode != 0:
            sh('git -C /repo revert --abort'); sh('git -C /repo reset -q --hard HEAD')
            entry['result'] = 'revert does not apply on top of the later fixes (overlapping lines); not demonstrated'
            results.append(entry); print(h, prop, 'CONFLICT'); continue
        try:
            b = sh('go build ./...', cwd='/repo', env={**os.environ, 'GOFLAGS': '-mod=mod', 'GOPROXY': 'off', 'GOSUMDB': 'off', 'GOTOOLCHAIN': 'local'})
            if b.returncode != 0:
                entry['result'] = 'reverted tree does not build'; results.append(entry); print(h, prop, 'NOBUILD'); continue
            checks = {}
            for p in [prop] + [a for a in also if a != prop]:
                t0 = time.time()
                c = sh(f'./check.sh {p} quick', cwd=ROOT)
                viol = [l for l in c.stdout.splitlines() if l.startswith('VIOLATION')]
                checks[p] = {'exit': c.returncode, 'violation_lines': len(viol), 'seconds': round(time.time() - t0, 1),
                             'first': next((l.strip() for l in c.stdout.splitlines() if l.startswith('  [') or l.startswith('  clover') or 'signature' in l), '')[:300]}
            entry['checks'] = checks
            entry['result'] = 'detected' if checks[prop]['exit'] == 1 and checks[prop]['violation_lines'] > 0 else 'MISSED'
            print(h, prop, entry['result'], {k: v['exit'] for k, v in checks.items()})
        finally:
            sh('git -C /repo revert --abort'); sh('git -C /repo reset -q --hard HEAD')
        results.append(entry)
    out = os.path.join(ROOT, 'detection', 'fix_reverts.json')
    old = []
    if want and os.path.exists(out):
        old = [e for e in json.load(open(out)) if e['commit'] not in want]
    json.dump(old + results, open(out, 'w'), indent=1)

main()
