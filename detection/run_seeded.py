#!/usr/bin/env python3
"""Confirms and evaluates a property-breaking change written by an independent sub-agent.
  detection/run_seeded.py import <name> <property> <agent-worktree>   copy patch.diff, demo test(s), notes.md into seeded/<name>/
  detection/run_seeded.py confirm <name>      in a scratch worktree: demo passes without the patch, fails with it, 84-test baseline green with it
  detection/run_seeded.py check <name> [ids]  apply the patch to /repo (never committed), run the checks (default: all), restore
Results are merged into seeded/<name>/meta.json."""
import json, os, re, shutil, subprocess, sys, time, glob
ROOT = os.path.dirname(os.path.dirname(os.path.abspath(__file__)))
ENV = {**os.environ, 'GOFLAGS': '-mod=mod', 'GOPROXY': 'off', 'GOSUMDB': 'off', 'GOTOOLCHAIN': 'local'}
def sh(cmd, **kw): return subprocess.run(cmd, shell=True, capture_output=True, text=True, **kw)
def meta_path(name): return os.path.join(ROOT, 'seeded', name, 'meta.json')
def load(name):
    p = meta_path(name)
    return json.load(open(p)) if os.path.exists(p) else {'name': name}
def save(name, m): json.dump(m, open(meta_path(name), 'w'), indent=1)

def do_import(name, prop, wt):
    d = os.path.join(ROOT, 'seeded', name); os.makedirs(d, exist_ok=True)
    # the source change only (regenerated from the worktree so that it is exactly what the agent left applied)
    new_tests = [l[3:].strip() for l in sh('git status --porcelain', cwd=wt).stdout.splitlines() if l.startswith('??') and l.strip().endswith('_test.go')]
    diff = sh("git diff -- . ':(exclude)*_demo_test.go'", cwd=wt).stdout
    open(os.path.join(d, 'patch.diff'), 'w').write(diff)
    for t in new_tests:
        dst = os.path.join(d, 'demo', t); os.makedirs(os.path.dirname(dst), exist_ok=True); shutil.copy(os.path.join(wt, t), dst)
    if os.path.exists(os.path.join(wt, 'notes.md')): shutil.copy(os.path.join(wt, 'notes.md'), os.path.join(d, 'notes.md'))
    m = load(name); m.update({'property': prop, 'demo_tests': new_tests, 'patch_lines': diff.count('\n'), 'files_changed': re.findall(r'^\+\+\+ b/(.*)$', diff, re.M)})
    save(name, m); print('imported', name, new_tests, m['files_changed'])

def do_confirm(name):
    d = os.path.join(ROOT, 'seeded', name); m = load(name)
    wt = f'/tmp/confirm-{name}'
    sh(f'git -C /repo worktree remove --force {wt}'); shutil.rmtree(wt, ignore_errors=True)
    r = sh(f'git -C /repo worktree add -q --detach {wt} HEAD')
    try:
        for t in m['demo_tests']:
            os.makedirs(os.path.dirname(os.path.join(wt, t)) or wt, exist_ok=True); shutil.copy(os.path.join(d, 'demo', t), os.path.join(wt, t))
        pkgs = sorted({'./' + (os.path.dirname(t) or '.') for t in m['demo_tests']})
        names = []
        for t in m['demo_tests']:
            names += re.findall(r'^func (Test\w+)\(', open(os.path.join(d, 'demo', t)).read(), re.M)
        runre = '^(' + '|'.join(names) + ')$'
        cmd = f"go test -vet=off -count=1 -run '{runre}' {' '.join(pkgs)}"
        a = sh(cmd, cwd=wt, env=ENV)
        ap = sh(f'git apply {os.path.join(d, "patch.diff")}', cwd=wt)
        b = sh(cmd, cwd=wt, env=ENV)
        bl = sh(f'{ROOT}/baseline.sh {wt}')
        m['confirm'] = {'demo_cmd': cmd, 'demo_without_patch': 'pass' if a.returncode == 0 else 'FAIL', 'patch_applies': ap.returncode == 0,
                        'demo_with_patch': 'fail' if b.returncode != 0 else 'PASSES (no demonstration)', 'baseline_with_patch': bl.stdout.strip().splitlines()[0] if bl.stdout.strip() else bl.stderr[-200:],
                        'baseline_ok': bl.returncode == 0}
        m['confirmed'] = a.returncode == 0 and ap.returncode == 0 and b.returncode != 0 and bl.returncode == 0
        if not m['confirmed']:
            m['confirm']['detail'] = (a.stdout[-400:] + ap.stderr[-300:] + b.stdout[-400:] + bl.stdout[-400:])
    finally:
        sh(f'git -C /repo worktree remove --force {wt}'); shutil.rmtree(wt, ignore_errors=True)
    save(name, m); print(name, 'confirmed' if m['confirmed'] else 'NOT CONFIRMED', m['confirm'])

def do_check(name, ids):
    d = os.path.join(ROOT, 'seeded', name); m = load(name)
    if not ids: ids = [json.loads(l)['id'] for l in open(os.path.join(ROOT, 'properties.jsonl'))]
    if sh('git -C /repo status --porcelain --untracked-files=no').stdout.replace(' M test/data/airlines.json', '').strip():
        print('refusing: /repo has uncommitted changes'); sys.exit(2)
    ap = sh(f'git -C /repo apply {os.path.join(d, "patch.diff")}')
    if ap.returncode != 0:
        print('patch does not apply to /repo', ap.stderr); sys.exit(2)
    res = m.get('checks', {})
    try:
        for c in ids:
            t0 = time.time(); r = sh(f'./check.sh {c} quick', cwd=ROOT)
            res[c] = {'exit': r.returncode, 'violation_lines': sum(1 for l in r.stdout.splitlines() if l.startswith('VIOLATION')), 'seconds': round(time.time() - t0, 1),
                      'first': next((l.strip() for l in r.stdout.splitlines() if l.startswith('  [') or l.startswith('  clover') or l.startswith('  Set(')), '')[:300]}
            print(name, c, res[c]['exit'], res[c]['violation_lines'], res[c]['first'][:150])
    finally:
        sh('git -C /repo checkout -- .')
    m['checks'] = res
    m['detected_by'] = sorted(c for c, v in res.items() if v['exit'] == 1 and v['violation_lines'] > 0)
    m['ran'] = 'git -C /repo apply seeded/%s/patch.diff; ./check.sh <id> quick for each id; git -C /repo checkout -- .' % name
    save(name, m); print(name, 'detected by', m['detected_by'])

if __name__ == '__main__':
    a = sys.argv[1:]
    if a[0] == 'import': do_import(a[1], a[2], a[3])
    elif a[0] == 'confirm': do_confirm(a[1])
    elif a[0] == 'check': do_check(a[1], a[2:])
