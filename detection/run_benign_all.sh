#!/bin/bash
# Runs every quick check against every behaviour-preserving change under benign/ (or those named). Needs exclusive use of /repo.
cd "$(dirname "$0")/.."
names="$@"; [ -z "$names" ] && names=$(ls -d benign/benign-* | xargs -n1 basename)
for n in $names; do
  timeout 7200 python3 detection/run_benign.py check $n 2>&1 | grep -E "baseline|alarms| 1 | 2 |refusing|does not apply"
  git -C /repo checkout -- . 2>/dev/null
done
