#!/bin/bash
# Runs every quick check against every behaviour-preserving change under benign/. Needs exclusive use of /repo.
cd "$(dirname "$0")/.."
for d in benign/benign-*/; do
  n=$(basename $d)
  timeout 7200 python3 detection/run_benign.py check $n 2>&1 | grep -E "baseline|alarms| 1 | 2 "
  git -C /repo checkout -- . 2>/dev/null
done
