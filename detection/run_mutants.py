#!/usr/bin/env python3
"""Applies each deliberate change of mutants/mutants.py to /repo's working tree (never committed), requires the
repository's own 84-test baseline to stay green, runs the expected checks (each must report a VIOLATION) and restores
the tree. Usage: detection/run_mutants.py [name ...]  -> detection/mutants.json"""
import json, os, subprocess, sys, time
ROOT = os.path.dirname(os.path.dirname(os.path.abspath(__file__)))
sys.path.insert(0, os.path.join(ROOT, 'mutants'))
from mutants import M

ENV = {**os.environ, 'GOFLAGS': '-mod=mod', 'GOPROXY': 'off', 'GOSUMDB': 'off', 'GOTOOLCHAIN': 'local'}
def sh(cmd, **kw): return subprocess.run(cmd, shell=True, capture_output=True, text=True, **kw)

def main():
    want = set(sys.argv[1:])
    out_path = os.path.join(ROOT, 'detection', 'mutants.json')
    results = {}
    if os.path.exists(out_path):
        results = {e['name']: e for e in json.load(open(out_path))}
    for mu in M:
        if want and mu['name'] not in want: continue
        e = dict(name=mu['name'], property=mu['property'], why=mu['why'])
        ok = True
        try:
            for f, old, new in mu['edits']:
                p = os.path.join('/repo', f); s = open(p).read()
                if s.count(old) < 1:
                    e['result'] = f'edit does not apply to {f}'; ok = False; break
                open(p, 'w').write(s.replace(old, new, 1))
            if ok:
                b = sh('go build ./... && go vet ./... 2>/dev/null; go build ./...', cwd='/repo', env=ENV)
                if b.returncode != 0:
                    e['result'] = 'does not build: ' + b.stderr[-300:]; ok = False
            if ok:
                bl = sh(os.path.join(ROOT, 'baseline.sh'))
                e['baseline'] = bl.stdout.strip().splitlines()[0] if bl.stdout else bl.stderr[-200:]
                if bl.returncode != 0:
                    e['result'] = 'rejected: the repository suite notices this change'; ok = False
            if ok:
                e['checks'] = {}
                for c in mu['expect']:
                    t0 = time.time(); r = sh(f'./check.sh {c} quick', cwd=ROOT)
                    e['checks'][c] = dict(exit=r.returncode, violation_lines=sum(1 for l in r.stdout.splitlines() if l.startswith('VIOLATION')), seconds=round(time.time()-t0, 1),
                                          first=next((l.strip() for l in r.stdout.splitlines() if l.startswith('  [') or l.startswith('  signature')), '')[:260])
                first = mu['expect'][0]
                e['result'] = 'detected' if e['checks'][first]['exit'] == 1 and e['checks'][first]['violation_lines'] > 0 else 'MISSED'
        finally:
            sh('git -C /repo checkout -- .')
        results[mu['name']] = e
        print(mu['name'], mu['property'], e['result'], {k: v['exit'] for k, v in e.get('checks', {}).items()})
    json.dump(list(results.values()), open(out_path, 'w'), indent=1)
main()
