#!/usr/bin/env python3
"""False-alarm trial: applies a behaviour-preserving change written by an independent sub-agent and runs every quick check.
  detection/run_benign.py import <name> <agent-worktree>   copy patch.diff + notes.md into benign/<name>/
  detection/run_benign.py check <name> [ids]               apply to /repo (never committed), baseline + quick checks, restore
Every alarm is then classified by hand (meta.json "classification"): either the change does break the property (a true
alarm: the change was not benign) or the check demanded more than the property states (a false alarm: the check is corrected).
Needs exclusive use of /repo."""
import json, os, re, shutil, subprocess, sys, time
ROOT = os.path.dirname(os.path.dirname(os.path.abspath(__file__)))
def sh(cmd, **kw): return subprocess.run(cmd, shell=True, capture_output=True, text=True, **kw)
def meta_path(name): return os.path.join(ROOT, 'benign', name, 'meta.json')
def load(name):
    p = meta_path(name)
    return json.load(open(p)) if os.path.exists(p) else {'name': name}
def save(name, m): json.dump(m, open(meta_path(name), 'w'), indent=1)

def do_import(name, wt):
    d = os.path.join(ROOT, 'benign', name); os.makedirs(d, exist_ok=True)
    sh("git add -N -- $(git ls-files -o --exclude-standard | grep '\\.go$' | grep -v '_test\\.go$')", cwd=wt)
    diff = sh("git diff -- . ':(exclude)*_test.go'", cwd=wt).stdout
    open(os.path.join(d, 'patch.diff'), 'w').write(diff)
    if os.path.exists(os.path.join(wt, 'notes.md')): shutil.copy(os.path.join(wt, 'notes.md'), os.path.join(d, 'notes.md'))
    m = load(name); m.update({'patch_lines': diff.count('\n'), 'files_changed': re.findall(r'^\+\+\+ b/(.*)$', diff, re.M)})
    save(name, m); print('imported', name, m['patch_lines'], m['files_changed'])

def do_check(name, ids):
    d = os.path.join(ROOT, 'benign', name); m = load(name)
    if not ids: ids = [json.loads(l)['id'] for l in open(os.path.join(ROOT, 'properties.jsonl'))]
    if sh('git -C /repo status --porcelain --untracked-files=no').stdout.replace(' M test/data/airlines.json', '').strip():
        print('refusing: /repo has uncommitted changes'); sys.exit(2)
    ap = sh(f'git -C /repo apply {os.path.join(d, "patch.diff")}')
    if ap.returncode != 0:
        print('patch does not apply to /repo', ap.stderr); sys.exit(2)
    res = m.get('checks', {})
    try:
        bl = sh(f'{ROOT}/baseline.sh /repo')
        m['baseline_ok'] = bl.returncode == 0
        m['baseline'] = bl.stdout.strip().splitlines()[0] if bl.stdout.strip() else bl.stderr[-200:]
        print(name, 'baseline', m['baseline'])
        for c in ids:
            t0 = time.time(); r = sh(f'./check.sh {c} quick', cwd=ROOT)
            viol = [l for l in r.stdout.splitlines() if l.startswith('VIOLATION')]
            res[c] = {'exit': r.returncode, 'violation_lines': len(viol), 'seconds': round(time.time() - t0, 1),
                      'first': next((l.strip() for l in r.stdout.splitlines() if l.startswith('  [') or l.startswith('  clover') or l.startswith('  Set(')), '')[:400]}
            if r.returncode != 0:
                open(os.path.join(d, f'alarm-{c}.txt'), 'w').write(r.stdout[-6000:] + r.stderr[-2000:])
            print(name, c, res[c]['exit'], res[c]['violation_lines'], res[c]['seconds'], res[c]['first'][:200], flush=True)
    finally:
        sh('git -C /repo checkout -- .')
        patch = open(os.path.join(d, 'patch.diff')).read()
        for newf in re.findall(r'^--- /dev/null\n\+\+\+ b/(.*)$', patch, re.M):   # files the patch created
            try: os.remove(os.path.join('/repo', newf))
            except FileNotFoundError: pass
    m['checks'] = res
    m['alarms'] = sorted(c for c, v in res.items() if v['exit'] != 0)
    save(name, m); print(name, 'alarms:', m['alarms'])

if __name__ == '__main__':
    a = sys.argv[1:]
    if a[0] == 'import': do_import(a[1], a[2])
    elif a[0] == 'check': do_check(a[1], a[2:])
