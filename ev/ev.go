// Package ev collects what a check run covered, reports violations (replay files, VIOLATION / KNOWN-FINDING
// lines) and writes the evidence file.
package ev

import (
	"crypto/sha1"
	"encoding/json"
	"fmt"
	"os"
	"path/filepath"
	"sort"
	"strconv"
	"strings"
	"sync"
	"time"
)

type Known struct {
	Property string `json:"property"`
	Status   string `json:"status"` // open | fixed
	Key      string `json:"key"`    // signature (path.Match pattern) of the specific failing input / history
	What     string `json:"what"`
	Commit   string `json:"commit,omitempty"`
}

type knownFile struct {
	Findings []Known  `json:"findings"`
	Fixed    []string `json:"fixed"`
}

type Violation struct {
	Sig     string
	Msg     string
	Witness interface{}
	Replay  string
	Known   *Known
}

type Run struct {
	Prop, Tier, Level string
	Seed              int
	Root              string // /verif
	start             time.Time

	mu          sync.Mutex
	cov         map[string]interface{}
	counters    map[string]int64
	distinct    map[string]map[string]bool
	samples     []interface{}
	assumptions []string
	viols       map[string]*Violation
	order       []string
	known       []Known
	blocked     map[string]int
	Exhaustive  bool
	notes       []string
	MaxSamples  int
}

func NewRun(root, prop, tier, level string) *Run {
	seed, _ := strconv.Atoi(os.Getenv("VERIF_SEED"))
	r := &Run{Prop: prop, Tier: tier, Level: level, Seed: seed, Root: root, start: time.Now(),
		cov: map[string]interface{}{}, counters: map[string]int64{}, distinct: map[string]map[string]bool{},
		viols: map[string]*Violation{}, blocked: map[string]int{}, Exhaustive: true, MaxSamples: 6}
	var kf knownFile
	if b, err := os.ReadFile(filepath.Join(root, "known_findings.json")); err == nil {
		json.Unmarshal(b, &kf)
	}
	r.known = kf.Findings
	return r
}

func (r *Run) Add(counter string, n int64) {
	r.mu.Lock()
	r.counters[counter] += n
	r.mu.Unlock()
}

func (r *Run) Get(counter string) int64 {
	r.mu.Lock()
	defer r.mu.Unlock()
	return r.counters[counter]
}

// Distinct records one element of a named set; the evidence reports the set's size.
func (r *Run) Distinct(set, elem string) {
	r.mu.Lock()
	s := r.distinct[set]
	if s == nil {
		s = map[string]bool{}
		r.distinct[set] = s
	}
	if len(elem) > 64 {
		h := sha1.Sum([]byte(elem))
		elem = fmt.Sprintf("%x", h[:10])
	}
	s[elem] = true
	r.mu.Unlock()
}

func (r *Run) DistinctCount(set string) int {
	r.mu.Lock()
	defer r.mu.Unlock()
	return len(r.distinct[set])
}

func (r *Run) Set(key string, v interface{}) {
	r.mu.Lock()
	r.cov[key] = v
	r.mu.Unlock()
}

func (r *Run) Sample(s interface{}) {
	r.mu.Lock()
	if len(r.samples) < r.MaxSamples {
		r.samples = append(r.samples, s)
	}
	r.mu.Unlock()
}

func (r *Run) Assume(s string) {
	r.mu.Lock()
	r.assumptions = append(r.assumptions, s)
	r.mu.Unlock()
}

func (r *Run) Note(s string) {
	r.mu.Lock()
	r.notes = append(r.notes, s)
	r.mu.Unlock()
}

// Blocked counts a finding that belongs to another property's oracle.
func (r *Run) Blocked(tag string) {
	r.mu.Lock()
	r.blocked[tag]++
	r.mu.Unlock()
}

func (r *Run) NotExhaustive(why string) {
	r.mu.Lock()
	r.Exhaustive = false
	r.notes = append(r.notes, "not exhaustive: "+why)
	r.mu.Unlock()
}

// Violation records a violation under a signature (one replay file per signature; the first witness wins).
func (r *Run) Violation(sig, msg string, witness interface{}) {
	r.mu.Lock()
	defer r.mu.Unlock()
	if old, dup := r.viols[sig]; dup {
		r.counters["violating_cases"]++
		if len(msg) < len(old.Msg) { // keep the shortest witness of a signature
			old.Msg, old.Witness = msg, witness
		}
		return
	}
	r.counters["violating_cases"]++
	v := &Violation{Sig: sig, Msg: msg, Witness: witness}
	for i := range r.known {
		k := &r.known[i]
		if k.Property == r.Prop && k.Status == "open" {
			if k.Key == sig || wildcardMatch(k.Key, sig) {
				v.Known = k
			}
		}
	}
	r.viols[sig] = v
	r.order = append(r.order, sig)
}

// wildcardMatch: '*' in the pattern matches any (possibly empty) substring; everything else is literal.
func wildcardMatch(pattern, s string) bool {
	parts := strings.Split(pattern, "*")
	if len(parts) == 1 {
		return pattern == s
	}
	if !strings.HasPrefix(s, parts[0]) {
		return false
	}
	s = s[len(parts[0]):]
	for i := 1; i < len(parts)-1; i++ {
		j := strings.Index(s, parts[i])
		if j < 0 {
			return false
		}
		s = s[j+len(parts[i]):]
	}
	return strings.HasSuffix(s, parts[len(parts)-1])
}

func (r *Run) NumViolations() int {
	r.mu.Lock()
	defer r.mu.Unlock()
	n := 0
	for _, v := range r.viols {
		if v.Known == nil {
			n++
		}
	}
	return n
}

func (r *Run) Elapsed() time.Duration { return time.Since(r.start) }

// Finish writes replay files and the evidence file, prints the result lines and returns the exit code.
func (r *Run) Finish(rule string) int {
	r.mu.Lock()
	defer r.mu.Unlock()
	os.MkdirAll(filepath.Join(r.Root, "replays"), 0o755)
	os.MkdirAll(filepath.Join(r.Root, "evidence"), 0o755)
	real := 0
	maxReport := 25
	for i, sig := range r.order {
		v := r.viols[sig]
		if v.Known != nil {
			fmt.Printf("KNOWN-FINDING: property=%s %s [%s]\n", r.Prop, v.Known.What, sig)
			continue
		}
		real++
		if i >= maxReport {
			if os.Getenv("VERIF_VERBOSE") != "" {
				fmt.Printf("  (more) signature: %s :: %s\n", sig, v.Msg)
			}
			continue
		}
		h := sha1.Sum([]byte(sig))
		p := filepath.Join(r.Root, "replays", fmt.Sprintf("%s-%x.json", r.Prop, h[:6]))
		b, _ := json.MarshalIndent(map[string]interface{}{"property": r.Prop, "signature": sig, "message": v.Msg, "witness": v.Witness}, "", " ")
		os.WriteFile(p, b, 0o644)
		v.Replay = p
		fmt.Printf("VIOLATION property=%s replay=%s\n  signature: %s\n  %s\n", r.Prop, p, sig, v.Msg)
	}
	cov := map[string]interface{}{}
	for k, v := range r.cov {
		cov[k] = v
	}
	for k, v := range r.counters {
		cov[k] = v
	}
	for k, s := range r.distinct {
		cov["distinct_"+k] = len(s)
	}
	cov["rule"] = rule
	if len(r.samples) == 0 {
		r.samples = append(r.samples, "no case was executed")
	}
	cov["samples"] = r.samples
	cov["exhaustive"] = r.Exhaustive
	if len(r.blocked) > 0 {
		cov["findings_owned_by_other_properties"] = r.blocked
	}
	if len(r.notes) > 0 {
		sort.Strings(r.notes)
		cov["notes"] = r.notes
	}
	evd := map[string]interface{}{
		"property_id": r.Prop, "tier": r.Tier, "seed": r.Seed, "level": r.Level, "coverage": cov,
		"assumptions": r.assumptions, "wall_s": time.Since(r.start).Seconds(), "violations": real,
	}
	if r.assumptions == nil {
		evd["assumptions"] = []string{}
	}
	b, _ := json.MarshalIndent(evd, "", " ")
	os.WriteFile(filepath.Join(r.Root, "evidence", r.Prop+".json"), b, 0o644)
	fmt.Printf("%s %s: %d violation(s), exhaustive=%v, %.1fs\n", r.Prop, r.Tier, real, r.Exhaustive, time.Since(r.start).Seconds())
	if real > 0 {
		return 1
	}
	return 0
}
