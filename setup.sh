#!/bin/bash
# Builds the framework offline from files on disk and warms the Go build cache.
cd "$(dirname "$0")" || exit 2
export GOFLAGS=-mod=mod GOPROXY=off GOSUMDB=off GOTOOLCHAIN=local
cp /repo/go.sum ./go.sum.repo 2>/dev/null
mkdir -p bin evidence replays
go build -tags verif -o bin/verif ./cmd/verif || exit 1
go build -race -tags verif -o bin/verif-race ./cmd/verif || echo "setup: race build failed (C07 will skip its race pass)"
echo "setup: bin/verif built"
