#!/bin/bash
# Builds the framework offline from files on disk and warms the Go build cache.
cd "$(dirname "$0")" || exit 2
export GOFLAGS=-mod=mod GOPROXY=off GOSUMDB=off GOTOOLCHAIN=local
cp /repo/go.sum ./go.sum.repo 2>/dev/null
mkdir -p bin evidence replays
go build -tags verif -o bin/verif ./cmd/verif || exit 1
echo "setup: bin/verif built"
