package main

import (
	"fmt"
	"os"
	"runtime/pprof"
	"sort"
	"strconv"
	"strings"
	"time"

	"verif/checks"
	"verif/drv"
	"verif/eng"
	"verif/ev"
	"verif/m"
)

func usage() {
	fmt.Fprintln(os.Stderr, "usage: verif check <property-id> [quick|thorough] | verif replay <file> | verif list")
	os.Exit(2)
}

func main() {
	if len(os.Args) < 2 {
		usage()
	}
	root := os.Getenv("VERIF_ROOT")
	if root == "" {
		root = "/verif"
	}
	if f := os.Getenv("VERIF_HEAPPROF"); f != "" { // debugging aid: heap profile after two minutes
		go func() {
			time.Sleep(120 * time.Second)
			if out, err := os.Create(f); err == nil {
				pprof.WriteHeapProfile(out)
				out.Close()
			}
		}()
	}
	switch os.Args[1] {
	case "list":
		ids := []string{}
		for id := range checks.Registry {
			ids = append(ids, id)
		}
		sort.Strings(ids)
		for _, id := range ids {
			fmt.Println(id)
		}
	case "replay":
		if len(os.Args) < 3 {
			usage()
		}
		found, err := eng.Replay(os.Args[2])
		drv.Cleanup()
		if err != nil {
			fmt.Fprintln(os.Stderr, "replay:", err)
			os.Exit(2)
		}
		if found {
			fmt.Println("replay: the finding is reproduced")
			os.Exit(1)
		}
		fmt.Println("replay: no finding on the current tree")
	case "racepass":
		// free-running execution of the C07 scenario bodies; meaningful in the binary built with -race
		rounds := 10
		if len(os.Args) > 2 && os.Args[2] == "thorough" {
			rounds = 200
		}
		n := checks.RacePass(rounds)
		fmt.Printf("racepass: %d free-running executions\n", n)
		drv.Cleanup()
	case "crashworker":
		// crashworker <backend> <dir> <history.json> <kill-at>
		if len(os.Args) < 6 {
			usage()
		}
		k, _ := strconv.Atoi(os.Args[5])
		os.Exit(eng.CrashWorker(os.Args[2], os.Args[3], os.Args[4], k))
	case "check":
		if len(os.Args) < 3 {
			usage()
		}
		id := os.Args[2]
		tier := "quick"
		if len(os.Args) > 3 {
			tier = os.Args[3]
		}
		if t := os.Getenv("VERIF_TIER"); t != "" && len(os.Args) <= 3 {
			tier = t
		}
		c := checks.Registry[id]
		if c == nil {
			fmt.Fprintf(os.Stderr, "no check registered for %s\n", id)
			os.Exit(2)
		}
		run := ev.NewRun(root, id, tier, c.Level)
		code := 2
		eng.OnWorkerPanic = func(p interface{}, stack string) {
			where := "unknown"
			for _, l := range strings.Split(stack, "\n") {
				if strings.Contains(l, "/repo/") {
					where = strings.TrimSpace(l)
					break
				}
			}
			run.NotExhaustive("a worker ended early because the library panicked")
			run.Violation("panic|worker|"+where, fmt.Sprintf("the library panicked under a harness worker: %v\n%s", p, stack), map[string]interface{}{"engine": "worker", "panic": fmt.Sprint(p), "stack": stack})
		}
		// an operation that does not return within five minutes is reported as blocking forever, with the operation
		drv.StartHangMonitor(5*time.Minute, func(backend string, op m.Op, d time.Duration) {
			run.NotExhaustive("the check was ended by the hang monitor")
			run.Violation("hang|"+backend+"|"+op.K, fmt.Sprintf("[%s] %s has not returned after %s: the operation blocks forever (or an earlier operation wedged the database)", backend, op, d.Round(time.Second)),
				map[string]interface{}{"engine": "hang-monitor", "backend": backend, "op": op})
			os.Exit(run.Finish("ended by the hang monitor before the enumeration completed"))
		})
		func() {
			defer drv.Cleanup()
			rule := c.Run(run, tier)
			code = run.Finish(rule)
		}()
		os.Exit(code)
	default:
		usage()
	}
}
