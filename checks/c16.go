package checks

import (
	"verif/drv"
	"verif/eng"
	"verif/ev"
	"verif/m"
)

func init() {
	register("C16", "exploration", func(run *ev.Run, tier string) string {
		leaves := eng.AlgebraLeaves()
		trees := Depth1(leaves)
		small := []*m.Crit{leaves[1], leaves[4], leaves[12], leaves[21], leaves[36], leaves[42], leaves[47], leaves[49]}
		d2 := Depth2(small)
		trees = append(trees, d2[len(Depth1(small)):]...)
		laws := leaves
		backends := []string{drv.BBolt}
		if tier == "thorough" {
			backends = append(backends, drv.Badger)
			mid := leaves[:0:0]
			for i, l := range leaves {
				if i%3 == 0 {
					mid = append(mid, l)
				}
			}
			d2m := Depth2(mid)
			trees = append(trees, d2m[len(Depth1(mid)):]...)
		}
		docs := eng.AlgebraDocs()
		for _, b := range backends {
			eng.CritSweep(run, b, docs, trees, laws)
			eng.CritSweep(run, b, docs, trees, laws, "y", "zz")
			eng.KindSweep(run, b, docs)
		}
		run.Set("criteria_trees", len(trees))
		run.Set("documents", len(docs))
		run.Set("distinct_nontrivial", run.DistinctCount("selections")+run.DistinctCount("kind_cases"))
		return "every criteria tree (52 leaves: six comparison operators x operands nil/number/string/Field(y)/\"$y\"/reference to an absent field, In/Contains with literal, field-reference and empty lists, Exists/NotExists/Like; all negations and And/Or pairs; depth 2 over 8 leaves) x 48 documents (x over 12 typed shapes incl. absent, y over 4), on a collection without indexes and on one with indexes on y and on an unrelated field, evaluated through FindAll and through Satisfy on the publicly normalised tree, against the documented semantics; De Morgan, double negation, complement, Neq=Not(Eq), NotExists=Not(Exists), In=disjunction checked directly on clover's answers for every pair of leaves; every numeric literal in all 12 Go numeric kinds; distinct = distinct selected-document sets"
	})
}
