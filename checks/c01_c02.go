package checks

import (
	"verif/drv"
	"verif/eng"
	"verif/ev"
	"verif/m"
)

func init() {
	register("C02", "model_checking", runC02)
}

// sweepModelCounts fills the model-checking evidence keys for an exhaustive sweep over the real implementation:
// every executed case is a transition of the implementation validated against the oracle.
func sweepModelCounts(run *ev.Run) {
	n := run.Get("evaluations")
	run.Set("transitions", n)
	run.Set("traces_validated_against_impl", n)
	run.Set("states", run.DistinctCount("results"))
	run.Set("distinct_nontrivial", run.DistinctCount("results"))
}

func runC02(run *ev.Run, tier string) string {
	leaves := LeavesQuick()
	crits := []*m.Crit{nil}
	crits = append(crits, Depth1(leaves)...)
	small := []*m.Crit{leaves[0], leaves[3], leaves[4], leaves[6], leaves[13], leaves[15], leaves[18], leaves[20]}
	d2leaves := small[:4]
	if tier == "thorough" {
		d2leaves = small
	}
	d2 := Depth2(d2leaves)
	crits = append(crits, d2[len(Depth1(d2leaves)):]...)
	backends := []string{drv.BBolt}
	twins := Twins(false)
	if tier == "thorough" {
		crits = append(crits, Depth1(LeavesMore())[:0]...)
		more := LeavesMore()
		crits = append(crits, more...)
		for _, l := range more {
			crits = append(crits, m.Not(l))
		}
		for _, a := range more {
			for _, b := range leaves[:8] {
				crits = append(crits, m.And(a, b), m.Or(a, b), m.Or(b, a))
			}
		}
		backends = []string{drv.BBolt, drv.Badger}
		twins = Twins(true)
	}
	cfg := &eng.QSConfig{
		Name: "default", Backends: backends, Docs: eng.DefaultDataset(), Twins: twins,
		Crits: crits, Shapes: ShapesBasic(), Reads: true,
		Own: own("twin-index"),
	}
	eng.QuerySweep(cfg, run)
	// bulk writes on snapshot clones: fewer criteria (each task restores the snapshot three times)
	wcrits := []*m.Crit{nil}
	wcrits = append(wcrits, leaves...)
	for _, l := range leaves[:10] {
		wcrits = append(wcrits, m.Not(l))
	}
	for _, a := range small {
		for _, b := range small {
			wcrits = append(wcrits, m.And(a, b), m.Or(a, b))
		}
	}
	wtwins, wshapes := twins[:10], ShapesBasic()[:6]
	if tier == "thorough" {
		wtwins, wshapes = twins, ShapesBasic()
	}
	wcfg := &eng.QSConfig{
		Name: "default", Backends: backends, Docs: eng.DefaultDataset(), Twins: wtwins,
		Crits: wcrits, Shapes: wshapes, Writes: true,
		Own: own("twin-index"),
	}
	eng.QuerySweep(wcfg, run)
	sweepModelCounts(run)
	run.Assume("the unindexed twin is the oracle: a defect that affects full scans and index scans alike is C01's to report")
	return "every criteria tree of the alphabet (all leaves, negations, all And/Or pairs; depth 2 over 8 leaves) x 8 sort/window shapes, FindAll+Count on every twin collection (same documents; index sets none,x,y,x+y,xy,x+xy,n,n.a,n+n.a; indexes created before/after inserts/updates/deletes) and Update/UpdateFunc/Delete on restored snapshots; a case is distinct/non-trivial by its result signature (id set, sort-key sequence or count)"
}

func init() { register("C01", "model_checking", runC01) }

func runC01(run *ev.Run, tier string) string {
	leaves := LeavesQuick()
	crits := []*m.Crit{nil}
	crits = append(crits, Depth1(leaves)...)
	backends := []string{drv.BBolt}
	cfg := &eng.QSConfig{
		Name: "default", Backends: backends, Docs: eng.DefaultDataset(), Twins: Twins(false)[:6],
		Crits: crits, Shapes: ShapesBasic()[:5], Reads: true,
		Own: own("find", "state"),
	}
	if tier == "thorough" {
		more := LeavesMore()
		cfg.Crits = append(cfg.Crits, more...)
		for _, l := range more {
			cfg.Crits = append(cfg.Crits, m.Not(l))
		}
		for _, a := range more {
			for _, b := range leaves[:10] {
				cfg.Crits = append(cfg.Crits, m.And(a, b), m.Or(a, b))
			}
		}
		d3 := Depth2(leaves[:6])
		cfg.Crits = append(cfg.Crits, d3...)
		cfg.Backends = []string{drv.BBolt, drv.Badger}
		cfg.Twins = Twins(false)
	}
	eng.QuerySweep(cfg, run)
	n := run.Get("evaluations")
	results := run.DistinctCount("results")
	runSS(run, tier, []string{"values", "nested"}, []string{drv.BBolt, drv.Badger}, "", own("find", "state", "apply"), nil)
	run.Set("query_sweep_evaluations", n)
	run.Set("transitions", run.Get("transitions")+n)
	run.Set("traces_validated_against_impl", run.Get("transitions")+n)
	run.Set("distinct_nontrivial", int64(results)+run.Get("states"))
	return "(a) every criteria tree of the alphabet (26 leaves incl. mixed-type operands, nil, field references, In/Contains/Like/Exists/MatchFunc; all negations and And/Or pairs; thorough: 240 more leaves and depth 2) x 5 sort shapes on 6 index twins, FindAll compared with the reference model (exactly the satisfying live documents, once, with the values last written, in the required order); (b) breadth-first search to a fixpoint over a write alphabet on collections a/ab with values nil, int, float, string, array, object (insert, update by id in both updater styles, replace, save, bulk update, deletes, index create/drop, collection drop): in every reachable state 36 probe queries are compared with the model; the same for the 'nested' alphabet (objects nested in documents, indexes on n.a and n, rewrites through the dotted path and of the whole object, 16 probes); distinct = distinct result signatures + distinct raw states"
}
