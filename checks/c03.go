package checks

import (
	"verif/drv"
	"verif/eng"
	"verif/ev"
)

func init() {
	register("C03", "exploration", func(run *ev.Run, tier string) string {
		sizes := []int{}
		max := 64
		if tier == "thorough" {
			max = 400
		}
		for n := 0; n <= max; n++ {
			sizes = append(sizes, n)
		}
		cfg := &eng.BulkConfig{
			Backends: []string{drv.BBolt, drv.Badger}, Sizes: sizes, Pads: []int{0},
			IndexSets: [][]string{{}, {"x", "xy"}, {"n.a", "n"}, {"opt", "x"}}, Ops: eng.BulkOps(),
		}
		if tier == "thorough" {
			cfg.Pads = []int{0, 300}
		}
		tags := own("state", "callback", "apply", "err", "bulk-error", "rawkeys", "count", "indexquery", "setup")
		eng.BulkSweep(cfg, run, tags)
		if tier == "thorough" {
			eng.BulkSweep(&eng.BulkConfig{Backends: []string{drv.BBolt, drv.Badger}, Sizes: []int{512, 1000, 2000, 4000}, Pads: []int{0, 300}, IndexSets: [][]string{{}, {"x"}, {"x", "xy"}}, Ops: eng.BulkOps()}, run, tags)
			eng.BulkSweep(&eng.BulkConfig{Backends: []string{drv.BBolt}, Sizes: sizes[:128], Pads: []int{300}, IndexSets: [][]string{{"x"}}, Ops: eng.BulkOps(), OneByOne: true}, run, tags)
		} else {
			eng.BulkSweep(&eng.BulkConfig{Backends: []string{drv.BBolt}, Sizes: []int{150, 300, 700}, Pads: []int{300}, IndexSets: [][]string{{"x", "xy"}}, Ops: eng.BulkOps()}, run, tags)
			// sizes beyond typical batching thresholds (512, 1000, 1024, 2048) and values larger than a storage page / the badger value threshold
			big := eng.BulkOpsNamed("delete-all", "delete-indexed-field", "update-unrelated-field", "update-rewrites-filter-field", "updatefunc-all-inplace", "updatefunc-remove", "drop-and-recreate", "create-index-on-existing", "drop-index-x")
			eng.BulkSweep(&eng.BulkConfig{Backends: []string{drv.BBolt, drv.Badger}, Sizes: []int{513, 1025, 2100}, Pads: []int{0}, IndexSets: [][]string{{"x"}}, Ops: big}, run, tags)
			eng.BulkSweep(&eng.BulkConfig{Backends: []string{drv.BBolt, drv.Badger}, Sizes: []int{3, 17, 40}, Pads: []int{5000}, IndexSets: [][]string{{}, {"x"}}, Ops: eng.BulkOps()}, run, tags)
		}
		// the full sort x skip x limit grid on a Fibonacci ladder of sizes
		eng.BulkSweep(&eng.BulkConfig{Backends: []string{drv.BBolt, drv.Badger}, Sizes: []int{0, 1, 2, 3, 5, 8, 13, 21, 40}, Pads: []int{0}, IndexSets: [][]string{{}, {"x"}, {"y", "x"}}, Ops: eng.BulkWindowOps()}, run, tags)
		run.Set("distinct_nontrivial", run.DistinctCount("cases"))
		run.Set("max_size_every_n", max)
		return "UpdateFunc / Update / Delete over the full grid {no sort, sort +y, sort -x, sort +g,-y} x skip {unset,0,3,-1} x limit {unset,-1,0,4} x {no criteria, x>=2} (384 operations) at sizes 0,1,2,3,5,8,13,21,40 x 3 index sets x 2 backends; and every collection size N from 0 to the bound (64 quick, 400 thorough; plus larger multi-page sizes with 300-byte padding) x index sets none / x / x+xy x 16 bulk operations (Delete all / on the indexed field / on an unindexed field / sorted window; Update of an unrelated field and of the very field being filtered; UpdateFunc moving documents forward and backward in the index being scanned, in-place and copying, with sort+skip+limit, unsorted window, removal; DropCollection then re-creation; CreateIndex on the existing documents; DropIndex beside a prefix-named sibling) x bbolt and badger; oracle: the update function ran exactly once per document FindAll returned immediately before, on its pre-call value; afterwards exactly those documents changed/removed (reference model), the prefix-named sibling collection untouched, raw key set equal to a canonical rebuild; distinct = (backend, N, padding, index set, operation)"
	})
}
