package checks

import (
	"fmt"
	"strings"

	"verif/drv"
	"verif/eng"
	"verif/ev"
	"verif/m"
)

func faultPres(tier string) []eng.FaultPre {
	three := []m.Op{{K: "createColl", Coll: "a"}, ins("a", doc(u1, "x", int64(1), "y", "p"), doc(u2, "x", int64(2), "y", "q"), doc(u3, "x", int64(1), "y", "r"))}
	withIdx := append(append([]m.Op{}, three...), m.Op{K: "createIndex", Coll: "a", Field: "x"})
	two := append(append([]m.Op{}, withIdx...), m.Op{K: "createColl", Coll: "b"}, ins("b", doc(u1, "x", int64(9))))
	out := []eng.FaultPre{
		{Name: "empty-collection", Ops: []m.Op{{K: "createColl", Coll: "a"}}},
		{Name: "3-docs", Ops: three},
		{Name: "3-docs+index-x", Ops: withIdx},
		{Name: "2-collections", Ops: two},
	}
	if tier == "thorough" {
		big := []m.Op{{K: "createColl", Coll: "a"}, {K: "createIndex", Coll: "a", Field: "x"}, {K: "createIndex", Coll: "a", Field: "y"}}
		docs := []m.Doc{}
		for i := 0; i < 30; i++ {
			docs = append(docs, doc(eng.ID(i+1), "x", int64(i%4), "y", int64(i)))
		}
		big = append(big, ins("a", docs...))
		out = append(out, eng.FaultPre{Name: "30-docs+2-indexes", Ops: big})
	}
	return out
}

func faultCases() []eng.FaultCase {
	x1 := m.Leaf("eq", "x", int64(1))
	u4, u5 := eng.ID(4), eng.ID(5)
	importFile := drv.WriteTemp("import.json", `[{"_id":"`+eng.ID(7)+`","x":1},{"_id":"`+eng.ID(8)+`","x":2}]`)
	exportFile := drv.WriteTemp("export.json", "")
	w := func(name string, op m.Op) eng.FaultCase { return eng.FaultCase{Name: name, Op: op} }
	r := func(name string, op m.Op) eng.FaultCase { return eng.FaultCase{Name: name, Op: op, Read: true} }
	return []eng.FaultCase{
		w("insert-1", ins("a", doc(u4, "x", int64(3)))),
		w("insert-batch-3", ins("a", doc(u4, "x", int64(3)), doc(u5, "x", int64(1)), doc(eng.ID(6), "x", "s"))),
		w("save-new", m.Op{K: "save", Coll: "a", Docs: []m.Doc{doc("", "x", int64(4))}}),
		w("save-existing", m.Op{K: "save", Coll: "a", Docs: []m.Doc{doc(u1, "x", int64(5))}}),
		w("replace-by-id", m.Op{K: "replaceById", Coll: "a", Id: u2, Docs: []m.Doc{doc(u2, "x", int64(6))}}),
		w("update-by-id", updID("a", u1, "inplace", "x", int64(7))),
		w("update", m.Op{K: "update", Q: qOn("a", x1), Set: setMap("x", int64(8))}),
		w("update-sorted-window", m.Op{K: "update", Q: &m.Q{Coll: "a", Sort: sortBy("y", -1), SkipSet: true, Skip: 1, LimitSet: true, Limit: 2}, Set: setMap("z", int64(1))}),
		w("updatefunc-sorted", m.Op{K: "updateFunc", Q: &m.Q{Coll: "a", Crit: m.Leaf("gte", "x", int64(1)), Sort: sortBy("y", 1)}, Upd: &m.Updater{Set: setMap("x", int64(0)), Style: "copy"}}),
		w("updatefunc-window", m.Op{K: "updateFunc", Q: &m.Q{Coll: "a", LimitSet: true, Limit: 2}, Upd: &m.Updater{Set: setMap("w", true), Style: "inplace"}}),
		w("delete", m.Op{K: "delete", Q: qOn("a", x1)}),
		w("delete-all-sorted", m.Op{K: "delete", Q: &m.Q{Coll: "a", Sort: sortBy("x", 1)}}),
		w("delete-by-id", m.Op{K: "deleteById", Coll: "a", Id: u1}),
		w("create-collection", m.Op{K: "createColl", Coll: "n"}),
		w("drop-collection", m.Op{K: "dropColl", Coll: "a"}),
		w("create-index", m.Op{K: "createIndex", Coll: "a", Field: "y"}),
		w("drop-index", m.Op{K: "dropIndex", Coll: "a", Field: "x"}),
		{Name: "insert-batch-700", Op: ins("a", manyDocs(700)...), OnlyPre: "3-docs+index-x"},
		{Name: "insert-batch-1300", Op: ins("a", manyDocs(1300)...), OnlyPre: "3-docs"},
		w("updatefunc-invalid-result-for-first", m.Op{K: "updateFunc", Q: qOn("a", nil), Upd: &m.Updater{Set: setMap("w", int64(1)), Style: "copy", BadFor: u1}}),
		w("updatefunc-invalid-result-for-second", m.Op{K: "updateFunc", Q: &m.Q{Coll: "a", Sort: sortBy("y", 1)}, Upd: &m.Updater{Set: setMap("x", int64(3)), Style: "inplace", BadFor: u2}}),
		w("import-collection", m.Op{K: "import", Coll: "imp", Text: importFile, Docs: []m.Doc{doc(eng.ID(7), "x", float64(1)), doc(eng.ID(8), "x", float64(2))}}),
		w("create-collection-by-query", m.Op{K: "createByQuery", Coll: "cq", Q: qOn("a", x1)}),
		r("find-all", m.Op{K: "findAll", Q: qOn("a", x1)}),
		r("find-all-sorted", m.Op{K: "findAll", Q: &m.Q{Coll: "a", Sort: sortBy("x", -1)}}),
		r("count", m.Op{K: "count", Q: qOn("a", nil)}),
		r("count-criteria", m.Op{K: "count", Q: qOn("a", x1)}),
		r("find-by-id", m.Op{K: "findById", Coll: "a", Id: u1}),
		r("for-each", m.Op{K: "forEach", Q: qOn("a", nil), Stop: 2}),
		r("exists", m.Op{K: "exists", Q: qOn("a", x1)}),
		r("find-first", m.Op{K: "findFirst", Q: &m.Q{Coll: "a", Sort: sortBy("y", 1)}}),
		r("has-collection", m.Op{K: "hasColl", Coll: "a"}),
		r("list-collections", m.Op{K: "listColls"}),
		r("has-index", m.Op{K: "hasIndex", Coll: "a", Field: "x"}),
		r("list-indexes", m.Op{K: "listIndexes", Coll: "a"}),
		r("export-collection", m.Op{K: "export", Coll: "a", Text: exportFile}),
	}
}

// bigBatchInvalid: an offending document (duplicate inside the batch, duplicate of a stored id, malformed id) at the
// middle or the end of a batch of several hundred to several thousand documents: error, nothing changed.
func bigBatchInvalid(run *ev.Run) {
	bigBatchInvalidSizes(run, []int{600, 1300, -2600}, []string{"last"}, []string{"dup-in-batch", "dup-stored", "malformed", "import-dup-in-file", "import-malformed-in-file"})
	bigBatchInvalidSizes(run, []int{150, 2500}, []string{"middle"}, []string{"dup-in-batch", "malformed", "import-dup-in-file"})
}

func bigBatchInvalidSizes(run *ev.Run, sizes []int, wheres, kinds []string) {
	for _, b := range []string{drv.BBolt, drv.Badger} {
		in := drv.MustOpen(b)
		for _, idx := range []bool{false, true} {
			for _, n := range sizes {
				for _, where := range wheres {
					for _, kind := range kinds {
						in.Fresh(nil)
						model := m.NewDB()
						setup := []m.Op{{K: "createColl", Coll: "a"}, ins("a", doc(u1, "x", int64(1)))}
						if idx {
							setup = append(setup, m.Op{K: "createIndex", Coll: "a", Field: "x"})
						}
						for _, o := range setup {
							_, model, _ = drv.Step(in, model, o)
						}
						pad := 0
						if n < 0 { // larger than badger's per-transaction limit in this configuration: refused or accepted, never partially applied
							n, pad = -n, 700
						}
						docs := manyDocs(n)
						for _, d := range docs {
							if pad > 0 {
								d["pad"] = strings.Repeat("p", pad)
							}
						}
						pos := n - 1
						if where == "middle" {
							pos = n / 2
						}
						switch kind {
						case "dup-in-batch":
							docs[pos] = doc(docs[0]["_id"].(string), "x", int64(99))
						case "dup-stored":
							docs[pos] = doc(u1, "x", int64(99))
						case "malformed":
							docs[pos] = m.Doc{"_id": "not-a-uuid", "x": int64(99)}
						}
						op := ins("a", docs...)
						if strings.HasPrefix(kind, "import-") {
							// the same batch as a JSON file imported under a new name: a failed import leaves nothing behind
							if idx || pad > 0 {
								continue
							}
							bad := `{"_id":"` + docs[0]["_id"].(string) + `","x":99}`
							if kind == "import-malformed-in-file" {
								bad = `{"_id":"not-a-uuid","x":99}`
							}
							var sb strings.Builder
							sb.WriteString("[")
							for i, d := range docs {
								if i > 0 {
									sb.WriteString(",")
								}
								if i == pos {
									sb.WriteString(bad)
								} else {
									fmt.Fprintf(&sb, `{"_id":"%s","x":%d}`, d["_id"], i%9)
								}
							}
							sb.WriteString("]")
							op = m.Op{K: "import", Coll: "imported", Text: drv.WriteTemp("big-import.json", sb.String())}
						}
						before := drv.CanonState(in.Dump())
						res, _, fs := drv.Step(in, model, op)
						if strings.HasPrefix(kind, "import-") {
							fs = nil // the model is not told the file content; the outcome is judged below
							if res.Err == nil && res.Panic == nil {
								run.Violation("big-import-accepted|"+b+"|"+kind, fmt.Sprintf("[%s] ImportCollection of %d documents with a %s at position %d returned success", b, n, kind, pos), nil)
							}
						}
						run.Add("big_batch_cases", 1)
						name := fmt.Sprintf("%s|%s|indexed=%v|%s", b, kind, idx, where)
						w := map[string]interface{}{"engine": "bigbatch", "backend": b, "batch": n, "offending": kind, "position": pos, "indexed": idx}
						for _, f := range fs {
							if pad > 0 && f.Tag == "err" {
								continue // which error an oversized batch reports (store limit or the offending document) is not specified
							}
							run.Violation("big-batch-"+f.Tag+"|"+name, fmt.Sprintf("[%s] batch of %d documents, %s at position %d: %s", b, n, kind, pos, f.Msg), w)
						}
						if res.Panic == nil && res.Leak == "" && res.Err != nil && drv.CanonState(in.Dump()) != before {
							run.Violation("big-batch-changed-state|"+name, fmt.Sprintf("[%s] Insert of %d documents with a %s document at position %d returned %v but changed the database", b, n, kind, pos, res.Err), w)
						}
						in.V.ForgetLeaks()
					}
				}
			}
		}
		in.Close()
	}
}

func init() {
	register("C04", "fault_enumeration", func(run *ev.Run, tier string) string {
		tags := own("panic", "leak", "fault-swallowed", "fault-changed-state", "after-fault", "fault-free-run", "setup", "error-changed-state")
		eng.FaultEnum(run, []string{drv.BBolt, drv.Badger}, faultPres(tier), faultCases(), tags)
		run.Set("seconds_fault_enumeration", int(run.Elapsed().Seconds()))
		bigBatchInvalid(run)
		run.Set("seconds_after_big_batches", int(run.Elapsed().Seconds()))
		// invalid input: every erroring transition of the id / name / index alphabets must leave the state unchanged
		fe, fp := run.Get("evaluations"), run.DistinctCount("fault_positions")
		runSS(run, tier, []string{"ids", "names3", "indexes"}, []string{drv.BBolt, drv.Badger}, "", own("error-changed-state", "leak"), func(c *eng.SSConfig) {
			if tier != "thorough" && (c.Name == "ids" || c.Name == "names3") {
				c.MaxDepth = 4 // every erroring operation is reachable within a few steps; C12/C13 run these spaces to their fixpoints
			}
		})
		run.Set("fault_injections", fe)
		run.Set("distinct_nontrivial", fp)
		run.Set("evaluations", fe+run.Get("transitions"))
		run.Assume("failures are injected into the six kinds of store call the property names (begin, get, set, delete, cursor item read, commit); a failing commit rolls the real transaction back")
		return "for every backend x pre-state (empty collection; 3 documents; 3 documents + index; 2 collections; thorough: 30 documents + 2 indexes) x operation (21 write/catalog operations incl. batch inserts of 700 and 1300 documents (fault positions thinned to the first 40, last 40 and every 53rd), windowed and sorted bulk writes, ImportCollection, CreateCollectionByQuery; 13 reads): a dry run counts the store calls that can fail, then for EVERY position k the pre-state is restored and the operation re-run with call k failing: an error must be returned, the raw database content must equal the pre-state, no transaction or cursor may stay open, and re-running the operation without a fault must behave exactly as the reference model says; plus 192 large-batch cases (150-2500 documents, offending document in the middle / at the end: duplicate inside the batch, duplicate of a stored id, malformed id); plus every erroring transition (duplicate/malformed ids at every batch position, invalid updates, missing/existing collections, indexes, documents) of the ids/names3/indexes state spaces must leave the raw state unchanged; distinct = fault positions actually reached"
	})
}
