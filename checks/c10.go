package checks

import (
	"verif/eng"
	"verif/ev"
)

func init() {
	register("C10", "exploration", func(run *ev.Run, tier string) string {
		vals := eng.OrderValues()
		eng.OrderSweep(run, vals)
		run.Set("distinct_nontrivial", run.DistinctCount("pairs"))
		run.Set("values", len(vals))
		run.Assume("comparison is observed only through public criteria evaluation and the public index API; pairs the statement excludes (integer beyond 2^53 against a float) are skipped; key order is checked for numbers within 2^53 and times from 1970 to 2262")
		return "all ordered pairs and all triples of an " + "80-value boundary set (int64/uint64 extremes, -0.0, infinities, strings with 0x00/0xFF and prefix relations, nested/empty arrays and objects, bools, times across the representable range and in two zones): sign vs the documented order for every pair, reflexivity/antisymmetry/transitivity on clover's own signs for every triple, index key byte order vs value order for every pair in the key domain; a pair is distinct by its (i,j) position"
	})
}
