package checks

import (
	"verif/drv"
	"verif/eng"
	"verif/ev"
)

func init() {
	register("C17", "exploration", func(run *ev.Run, tier string) string {
		max := 3
		if tier == "thorough" {
			max = 4
		}
		for _, b := range []string{drv.BBolt, drv.Badger} {
			eng.RangeSweep(run, b, max)
			eng.RangeSweepByteCorners(run, b, max-1)
			eng.RangeNameLengthSweep(run, b, map[string]int{"quick": 80, "thorough": 300}[tier])
		}
		eng.RangeAlgebra(run)
		run.Set("distinct_nontrivial", run.DistinctCount("contents")+run.DistinctCount("range_pairs"))
		run.Assume("an open end is a nil bound with its inclusivity flag off (as the planner builds it); a nil bound with the flag on is only used in the nil-only range {nil,nil,true,true}; the consumer asks to stop by returning an error, which must come back to the caller")
		return "index package on the real bbolt and badger stores: every multiset of index entries over 10 values (nil, numbers of mixed Go types, prefix-related strings, bool, array) with <= 2 ids per value and <= N entries (N=3 quick, 4 thorough), surrounded by decoy keys (indexes xy, w, x.y, other collections, documents) and the same over 20 values chosen for their key bytes (floats whose encoding ends in 0xFF/0x00/0x01, +-MaxFloat64, 2^53-1, strings ending in 0x00/0xFF, times at nanosecond 255/256/65535) with <= N-1 entries, x every range (start,end) over the bounds with both inclusivity flags, plus the nil-only range and the full iteration x both directions x every stop position; Intersect/IsEmpty for every pair of ranges over a witness set holding every bound and values between; distinct = distinct index contents + range pairs"
	})
}

func init() {
	register("C15", "model_checking", func(run *ev.Run, tier string) string {
		names := []string{"consistency", "indexes", "values"}
		if tier == "thorough" {
			names = append(names, "names3", "ids")
		}
		runSS(run, tier, names, []string{drv.BBolt}, drv.Badger, own("twin"), nil)
		// badger on disk as the twin (values above 1 KiB go through its value log): depth-bounded in the quick tier
		runSS(run, tier, []string{"consistency"}, []string{drv.BBolt}, drv.BadgerDisk, own("twin"), func(c *eng.SSConfig) { c.MaxDepth = map[string]int{"quick": 3, "thorough": 0}[tier] })
		for _, b := range []string{drv.BBolt, drv.Badger} {
			eng.CursorSweep(run, b, true)
		}
		// every collection-name length (key buffers of every size) on both backends against the common reference
		eng.NameLengthSweep(run, []string{drv.BBolt, drv.Badger}, map[string]int{"quick": 1200, "thorough": 2500}[tier], own("state", "apply", "err", "rawkeys", "count", "indexquery", "id", "catalog-coll", "catalog-index"))
		// multi-page collections: every bulk operation at every size must give the reference result on both backends
		eng.BulkSweep(&eng.BulkConfig{Backends: []string{drv.BBolt, drv.Badger}, Sizes: sizesUpTo(map[string]int{"quick": 64, "thorough": 300}[tier]), Pads: []int{0}, IndexSets: [][]string{{"x", "xy"}}, Ops: eng.BulkOps()},
			run, own("state", "callback", "apply", "err", "bulk-error", "rawkeys", "count", "indexquery"))
		// operations that fail in the middle of a scan end the same way everywhere
		eng.ErrorPathTwins(run, []string{drv.BBolt, drv.Badger, drv.BadgerDisk}, "twin")
		if tier == "thorough" {
			eng.CursorSweep(run, drv.BadgerDisk, false)
		}
		return "all 16 bulk operations at every collection size 0..64 (thorough 300) on both backends against the common reference; lock-step twins: every transition of the breadth-first search (alphabets consistency, indexes, values; fixpoint) is executed on bbolt and on badger from the same state: same error (same sentinel, or an error in both), same documents in the same order for every collection, same stored key/value content; store-level cursor contract on both adapters: every committed subset of a 6-key universe (two keys with empty values) x every key subset reached by Set/Delete inside a write transaction before the cursor is created x 15 seek targets (present, absent between, before the first, after the last) x both directions: visited keys and values must be exactly the keys >= target ascending / <= target descending"
	})
}
