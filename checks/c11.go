package checks

import (
	"verif/drv"
	"verif/eng"
	"verif/ev"
)

func init() {
	register("C11", "exploration", func(run *ev.Run, tier string) string {
		depth := 3
		vals := eng.RoundtripValues(depth)
		backends := []string{drv.BBolt, drv.Badger}
		if tier == "thorough" {
			backends = append(backends, drv.BadgerDisk)
		}
		for _, b := range backends {
			eng.RoundtripSweep(run, b, vals)
		}
		run.Set("values", len(vals))
		run.Set("distinct_nontrivial", run.DistinctCount("documents"))
		return "every value of the grammar value ::= leaf | [v] | [v,s] | {k:v} | {k:v,k2:s} to depth 3 over 28 leaves (integer extremes, -0.0, infinities, empty and non-UTF-8 strings, times in UTC / fixed-offset / named zones with nanoseconds, pre-1970) and 3 small values s, at three placements (top-level field; inside an array; inside an object inside an array and inside a nested object): Insert -> FindById and FindAll -> close/reopen -> again -> ReplaceById + Update -> again; oracle: deep equality of Go types and values, times by instant and zone offset; distinct = distinct documents"
	})
}
