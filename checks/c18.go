package checks

import (
	"verif/eng"
	"verif/ev"
)

func init() {
	register("C18", "exploration", func(run *ev.Run, tier string) string {
		eng.NormSweep(run)
		run.Set("distinct_nontrivial", run.DistinctCount("typed_values")+run.DistinctCount("path_states"))
		run.Assume("the reference normaliser is written from the statement with reflect; names colliding between embedded and outer fields, and nil embedded pointers, are outside the grammar")
		return "every value of a typed grammar (every integer width at min/-1/0/1/max, floats, pointers of depth 1-3 incl. nil at every level and pointers to times, structs with rename/omitempty/unexported/embedded struct/embedded pointer, maps with string and non-string keys, slices and arrays incl. []uint8 and [2]uint8, unsupported kinds) through Document.Set (empty and pre-filled target, nested in maps and slices) and NewDocumentOf, against a reference normaliser: value, type, idempotence, determinism, unsupported => unchanged; every pair of Set operations over 6 dotted paths x 4 values followed by Get/Has on 9 paths; struct -> document -> Unmarshal round trips; distinct = distinct typed values + distinct path states"
	})
}
