package checks

import (
	"fmt"
	"os"
	"os/exec"
	"path/filepath"
	"strings"
	"time"

	"verif/drv"
	"verif/eng"
	"verif/ev"
	"verif/m"
)

func scenarios(indexed bool) []*eng.Scenario {
	base := []m.Op{{K: "createColl", Coll: "a"}}
	if indexed {
		base = append(base, m.Op{K: "createIndex", Coll: "a", Field: "x"})
	}
	with := func(ops ...m.Op) []m.Op { return append(append([]m.Op{}, base...), ops...) }
	all := qOn("a", nil)
	suffix := map[bool]string{true: "+index", false: ""}[indexed]
	x := func(n int) *m.Crit { return m.Leaf("eq", "x", int64(n)) }
	return []*eng.Scenario{
		{Name: "S1-batch-insert-vs-readers" + suffix, Setup: with(),
			Threads: [][]m.Op{
				{ins("a", doc(u1, "x", int64(1)), doc(u2, "x", int64(2)), doc(u3, "x", int64(3)))},
				{{K: "findAll", Q: all}, {K: "findAll", Q: qOn("a", m.Leaf("gte", "x", int64(2)))}},
				{{K: "count", Q: all}, {K: "count", Q: qOn("a", m.Leaf("gte", "x", int64(1)))}},
			}},
		{Name: "S2-crossing-bulk-updates" + suffix, Setup: with(ins("a", doc(u1, "x", int64(1)), doc(u2, "x", int64(5)), doc(u3, "x", int64(3)))),
			Threads: [][]m.Op{
				{{K: "update", Q: qOn("a", x(1)), Set: setMap("x", int64(5))}},
				{{K: "update", Q: qOn("a", x(5)), Set: setMap("x", int64(1))}},
			}},
		{Name: "S3-point-ops-same-id" + suffix, Setup: with(ins("a", doc(u1, "x", int64(1)), doc(u2, "x", int64(2)))),
			Threads: [][]m.Op{
				{{K: "deleteById", Coll: "a", Id: u1}},
				{updID("a", u1, "inplace", "x", int64(9))},
				{{K: "findById", Coll: "a", Id: u1}, {K: "count", Q: all}},
			}},
		{Name: "S4-create-index-vs-insert" + suffix, Setup: with(ins("a", doc(u1, "x", int64(1), "y", int64(1)))),
			Threads: [][]m.Op{
				{{K: "createIndex", Coll: "a", Field: "y"}},
				{ins("a", doc(u2, "x", int64(2), "y", int64(2)))},
				{{K: "findAll", Q: &m.Q{Coll: "a", Sort: sortBy("y", 1)}}},
			}},
		{Name: "S5-drop-vs-insert-vs-create" + suffix, Setup: with(ins("a", doc(u1, "x", int64(1)))),
			Threads: [][]m.Op{
				{{K: "dropColl", Coll: "a"}},
				{ins("a", doc(u2, "x", int64(2)))},
				{{K: "createColl", Coll: "a"}, {K: "count", Q: all}},
			}},
		{Name: "S6-insert-same-id" + suffix, Setup: with(),
			Threads: [][]m.Op{
				{ins("a", doc(u1, "x", int64(1)))},
				{ins("a", doc(u1, "x", int64(2)), doc(u2, "x", int64(2)))},
				{{K: "count", Q: all}},
			}},
		{Name: "S7-delete-all-vs-insert-vs-count" + suffix, Setup: with(ins("a", doc(u1, "x", int64(1)), doc(u2, "x", int64(2)))),
			Threads: [][]m.Op{
				{{K: "delete", Q: all}},
				{ins("a", doc(u3, "x", int64(3)))},
				{{K: "count", Q: all}, {K: "findAll", Q: all}},
			}},
		{Name: "S9-two-deleters-same-id" + suffix, Setup: with(ins("a", doc(u1, "x", int64(1)), doc(u2, "x", int64(2)), doc(u3, "x", int64(1)))),
			Threads: [][]m.Op{
				{{K: "deleteById", Coll: "a", Id: u1}},
				{{K: "deleteById", Coll: "a", Id: u1}, {K: "count", Q: all}},
				{{K: "delete", Q: qOn("a", x(1))}, {K: "count", Q: all}},
			}},
		{Name: "S10-updaters-same-doc" + suffix, Setup: with(ins("a", doc(u1, "x", int64(1), "n", int64(0)), doc(u2, "x", int64(2), "n", int64(0)))),
			Threads: [][]m.Op{
				{updID("a", u1, "copy", "x", int64(5))},
				{{K: "replaceById", Coll: "a", Id: u1, Docs: []m.Doc{doc(u1, "x", int64(6), "n", int64(1))}}},
				{{K: "update", Q: qOn("a", m.Leaf("gte", "x", int64(1))), Set: setMap("n", int64(7))}, {K: "findAll", Q: qOn("a", m.Leaf("gte", "x", int64(5)))}},
			}},
		{Name: "S11-large-batch-vs-count" + suffix, Setup: with(ins("a", doc(u1, "x", int64(1)))),
			Threads: [][]m.Op{
				{ins("a", manyDocs(520)...)},
				{{K: "count", Q: all}, {K: "count", Q: qOn("a", m.Leaf("gte", "x", int64(0)))}},
			}},
		{Name: "S12-large-bulk-writes-vs-count" + suffix, Setup: with(ins("a", manyDocs(520)...)),
			Threads: [][]m.Op{
				{{K: "delete", Q: qOn("a", m.Leaf("gte", "x", int64(3)))}, {K: "update", Q: qOn("a", m.Leaf("lte", "x", int64(4))), Set: setMap("z", int64(1))}},
				{{K: "count", Q: all}, {K: "count", Q: qOn("a", m.Exists("z"))}},
			}},
		{Name: "S13-oversize-batch-vs-count" + suffix, Setup: with(ins("a", doc(u1, "x", int64(1)))),
			Threads: [][]m.Op{
				{ins("a", paddedDocs(2600, 700)...)}, // beyond badger's per-transaction limit in this configuration: refused as a whole there
				{{K: "count", Q: all}, {K: "count", Q: qOn("a", m.Leaf("gte", "x", int64(0)))}},
			}},
		{Name: "S14-two-creators-of-one-collection" + suffix, Setup: with(),
			Threads: [][]m.Op{
				{{K: "createColl", Coll: "b"}, {K: "createIndex", Coll: "b", Field: "x"}, ins("b", doc(u1, "x", int64(1)), doc(u2, "x", int64(2)))},
				{{K: "createColl", Coll: "b"}},
				{{K: "count", Q: qOn("b", nil)}},
			}},
		{Name: "S15-two-creators-of-one-index" + suffix, Setup: with(ins("a", doc(u1, "x", int64(1), "y", int64(1)), doc(u2, "x", int64(2), "y", int64(2)))),
			Threads: [][]m.Op{
				{{K: "createIndex", Coll: "a", Field: "y"}},
				{{K: "createIndex", Coll: "a", Field: "y"}, {K: "dropIndex", Coll: "a", Field: "y"}},
				{{K: "hasIndex", Coll: "a", Field: "y"}, {K: "findAll", Q: &m.Q{Coll: "a", Sort: sortBy("y", 1)}}},
			}},
		{Name: "S16-two-droppers" + suffix, Setup: with(ins("a", doc(u1, "x", int64(1))), m.Op{K: "createIndex", Coll: "a", Field: "y"}),
			Threads: [][]m.Op{
				{{K: "dropIndex", Coll: "a", Field: "y"}},
				{{K: "dropIndex", Coll: "a", Field: "y"}, {K: "createIndex", Coll: "a", Field: "y"}},
				{{K: "dropColl", Coll: "a"}},
			}},
		{Name: "S17-reader-vs-two-commits-on-its-page" + suffix, Setup: with(ins("a", append(paddedDocs(12, 300), doc(u1, "x", int64(1), "pad", strings.Repeat("q", 300)))...)),
			Threads: [][]m.Op{
				// both inserted ids sort before everything stored: the leaf page is rewritten twice while the reader is
				// between the end of its transaction and its return
				{ins("a", doc(eng.ID(1), "x", int64(4), "pad", strings.Repeat("r", 300))), ins("a", doc(eng.ID(2), "x", int64(5), "pad", strings.Repeat("s", 300)))},
				{{K: "findById", Coll: "a", Id: u1}, {K: "findAll", Q: qOn("a", x(1))}},
			}},
		{Name: "S18-import-vs-creator-of-the-same-name" + suffix, Setup: with(),
			Threads: [][]m.Op{
				{{K: "import", Coll: "b", Text: s18File(), Docs: []m.Doc{doc(eng.ID(7), "x", float64(1)), doc(eng.ID(8), "x", float64(2))}}},
				{{K: "createColl", Coll: "b"}, {K: "createIndex", Coll: "b", Field: "x"}, ins("b", doc(u1, "x", int64(1)))},
				{{K: "count", Q: qOn("b", nil)}, {K: "findAll", Q: &m.Q{Coll: "b", Sort: sortBy("x", 1)}}},
			}},
		{Name: "S8-drop-index-vs-indexed-update" + suffix, Setup: with(ins("a", doc(u1, "x", int64(1)), doc(u2, "x", int64(2)))),
			Threads: [][]m.Op{
				{{K: "dropIndex", Coll: "a", Field: "x"}},
				{{K: "updateFunc", Q: &m.Q{Coll: "a", Crit: m.Leaf("gte", "x", int64(1)), Sort: sortBy("x", 1)}, Upd: &m.Updater{Set: setMap("x", int64(7)), Style: "inplace"}}},
				{{K: "findAll", Q: &m.Q{Coll: "a", Sort: sortBy("x", -1)}}},
			}},
	}
}

var s18Path string

// s18File: the JSON file scenario S18 imports (written once per process).
func s18File() string {
	if s18Path == "" {
		s18Path = drv.WriteTemp("s18-import.json", `[{"_id":"`+eng.ID(7)+`","x":1},{"_id":"`+eng.ID(8)+`","x":2}]`)
	}
	return s18Path
}

// RacePass is run by the -race binary (bin/verif-race racepass).
func RacePass(rounds int) int {
	scs := append(scenarios(false), scenarios(true)...)
	scs = append(scs, eng.WideScenario(), eng.AllPathsScenario())
	return eng.RacePass(scs, []string{drv.BBolt, drv.Badger}, rounds)
}

// runRaceBinary executes the free-running pass in the race-detector build and reports data races.
func runRaceBinary(run *ev.Run, tier string) {
	exe, _ := os.Executable()
	race := filepath.Join(filepath.Dir(exe), "verif-race")
	if _, err := os.Stat(race); err != nil {
		run.Note("race pass skipped: bin/verif-race not built")
		return
	}
	cmd := exec.Command(race, "racepass", tier)
	cmd.Env = append(os.Environ(), "GORACE=halt_on_error=0 exitcode=66")
	out, err := cmd.CombinedOutput()
	text := string(out)
	n := strings.Count(text, "WARNING: DATA RACE")
	run.Set("race_pass", map[string]interface{}{"kind": "sampling (free-running goroutines under the Go race detector), not part of the exhaustive exploration", "data_races_reported": n, "output_tail": tail(text, 200), "exit_error": fmt.Sprint(err)})
	if n > 0 {
		i := strings.Index(text, "WARNING: DATA RACE")
		rep := text[i:]
		if len(rep) > 3000 {
			rep = rep[:3000]
		}
		where := "unknown"
		for _, l := range strings.Split(rep, "\n") {
			if strings.Contains(l, "/repo/") || strings.Contains(l, "clover/v2") {
				where = strings.TrimSpace(l)
				break
			}
		}
		run.Violation("data-race|"+where, "the Go race detector reported a data race in a free-running execution of the scenario bodies:\n"+rep, map[string]interface{}{"engine": "racepass", "report": rep})
	} else if err != nil {
		run.Note("race pass: the race binary failed without reporting a race: " + fmt.Sprint(err) + " " + tail(text, 300))
	}
}

func tail(s string, n int) string {
	if len(s) > n {
		return s[len(s)-n:]
	}
	return s
}

func paddedDocs(n, pad int) []m.Doc {
	out := manyDocs(n)
	for _, d := range out {
		d["pad"] = strings.Repeat("p", pad)
	}
	return out
}

func manyDocs(n int) []m.Doc {
	out := make([]m.Doc, n)
	for i := range out {
		out[i] = doc(eng.ID(1000+i), "x", int64(i%9))
	}
	return out
}

func init() {
	register("C07", "model_checking", func(run *ev.Run, tier string) string {
		tags := own("nonlinearizable", "deadlock", "rawkeys", "count", "indexquery", "id", "panic", "leak", "final", "harness")
		only := os.Getenv("VERIF_C07_ONLY") // debugging aid: explore only the scenarios whose name starts with this
		if only == "" {
			runRaceBinary(run, tier)
		} // first: cheap, and a data race explains most of what the exploration would then stumble over
		nScen := 18
		for _, indexed := range []bool{false, true} {
			for i, sc := range scenarios(indexed) {
				if i >= nScen || !strings.HasPrefix(sc.Name, only) {
					continue
				}
				for _, b := range []string{drv.BBolt, drv.Badger} {
					eng.SchedExplore(&eng.SchedConfig{Scenario: sc, Backend: b, Mode: eng.ModeReduced, Bound: -1, Budget: budget(tier, 60*time.Second, 10*time.Minute), Own: tags}, run)
					large := strings.HasPrefix(sc.Name, "S11") || strings.HasPrefix(sc.Name, "S12") || strings.HasPrefix(sc.Name, "S13")
					if tier == "thorough" {
						eng.SchedExplore(&eng.SchedConfig{Scenario: sc, Backend: b, Mode: eng.ModeTxPoints, Bound: 3, Budget: 2 * time.Minute, Own: tags}, run)
						if !large {
							eng.SchedExplore(&eng.SchedConfig{Scenario: sc, Backend: b, Mode: eng.ModeEveryCall, Bound: 2, Budget: 2 * time.Minute, Own: tags}, run)
						}
					} else if !strings.HasPrefix(sc.Name, "S11") && !strings.HasPrefix(sc.Name, "S12") && !strings.HasPrefix(sc.Name, "S13") { // thousands of store calls per schedule: op+commit mode only in the quick tier
						eng.SchedExplore(&eng.SchedConfig{Scenario: sc, Backend: b, Mode: eng.ModeEveryCall, Bound: 1, Budget: 60 * time.Second, Own: tags}, run)
					}
				}
			}
		}
		run.Set("traces_validated_against_impl", run.Get("transitions"))
		run.Set("distinct_nontrivial", run.Get("schedules_with_preemption"))
		run.Assume("both stores isolate uncommitted work, so with scheduling points at operation and transaction boundaries the interleavings explored are complete for <= 3 goroutines; every-store-call points are explored with <= 2 preemptions in the thorough tier")
		run.Assume("data-race freedom is checked by a separate free-running -race pass (sampling), not by the exhaustive scheduler, whose hand-offs are happens-before edges")
		return "stateless depth-first enumeration of every schedule of 2-3 goroutines (1-2 operations each, forced to collide on one collection and 2-3 ids) on one DB handle under a cooperative scheduler with points at every operation start and every Begin/Commit/Rollback (unbounded preemptions), and in the thorough tier at every store call with <= 2 preemptions; scenarios with and without an index on the touched field, on bbolt (writer lock modelled as enabledness) and badger; per schedule: the call/return history plus a closing snapshot must be linearizable w.r.t. the reference model (porcupine; a store conflict is a legal no-op), the final raw key set must equal the canonical rebuild, counts and indexes consistent; a failing schedule is replayed to confirm determinism; states = distinct observed outcomes, transitions = schedules"
	})
}
