package checks

import (
	"verif/drv"
	"verif/eng"
	"verif/ev"
)

func init() {
	register("C20", "model_checking", func(run *ev.Run, tier string) string {
		for _, b := range []string{drv.BBolt, drv.Badger} {
			eng.HostileSweep(run, b)
			eng.ConcurrentClose(run, b)
		}
		eng.APISweep(run)
		eng.KindLiteralSweep(run, drv.BBolt)
		hostile := run.Get("evaluations")
		runSS(run, tier, []string{"consistency", "ids", "indexes", "values"}, []string{drv.BBolt, drv.Badger}, "", own("panic", "leak"), nil)
		run.Set("hostile_calls", hostile)
		run.Set("distinct_nontrivial", int64(run.DistinctCount("calls"))+run.Get("states"))
		run.Assume("'blocks forever' is decided structurally: an operation that returns with a transaction or cursor still open is what makes a later bbolt write block; every call is wrapped in recover()")
		return "(a) hostile sweep: every public DB operation x {missing collection, empty, populated, populated with one index, populated with three indexes, closed handle} x 41 criteria shapes (negations of In/Like/Exists/Contains/MatchFunc, triple negation, field-reference operands on indexed fields, nil operands, empty In/Contains, empty ranges, odd field names) x 6 sort/window shapes, on bbolt and badger; document/query/index API calls with edge arguments; (b) every transition and every audit read of the breadth-first searches 'consistency', 'ids', 'indexes', 'values' (fixpoints): no call may panic or return with a transaction or cursor open; distinct = distinct (backend, situation, operation shape) + distinct states"
	})
}
