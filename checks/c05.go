package checks

import (
	"fmt"
	"os"
	"strings"

	"verif/drv"
	"verif/eng"
	"verif/ev"
	"verif/m"
)

func crashAlphabet() []m.Op {
	x1 := m.Leaf("eq", "x", int64(1))
	u4, u5, u6 := eng.ID(4), eng.ID(5), eng.ID(6)
	imp := drv.WriteTemp("crash-import.json", `[{"_id":"`+eng.ID(7)+`","x":1},{"_id":"`+eng.ID(8)+`","x":2}]`)
	return []m.Op{
		{K: "createColl", Coll: "b"},
		ins("a", doc(u4, "x", int64(1))),
		ins("a", doc(u5, "x", int64(2)), doc(u6, "x", "s"), doc(eng.ID(9), "y", int64(1))),
		updID("a", u1, "inplace", "x", int64(7)),
		{K: "update", Q: qOn("a", x1), Set: setMap("x", int64(8), "z", true)},
		{K: "deleteById", Coll: "a", Id: u2},
		{K: "delete", Q: qOn("a", m.Leaf("gte", "x", int64(1)))},
		{K: "createIndex", Coll: "a", Field: "x"},
		{K: "createIndex", Coll: "a", Field: "y"},
		{K: "dropIndex", Coll: "a", Field: "x"},
		{K: "dropColl", Coll: "a"},
		{K: "import", Coll: "imp", Text: imp, Docs: []m.Doc{doc(eng.ID(7), "x", float64(1)), doc(eng.ID(8), "x", float64(2))}},
		{K: "createByQuery", Coll: "cq", Q: qOn("a", x1)},
	}
}

func crashHistories(maxLen int) []*eng.CrashHistory {
	three := []m.Op{{K: "createColl", Coll: "a"}, ins("a", doc(u1, "x", int64(1), "y", "p"), doc(u2, "x", int64(2), "y", "q"), doc(u3, "x", int64(1), "y", "r"))}
	preps := map[string][]m.Op{
		"empty":       {{K: "createColl", Coll: "a"}},
		"3docs":       three,
		"3docs+index": append(append([]m.Op{}, three...), m.Op{K: "createIndex", Coll: "a", Field: "x"}),
	}
	alpha := crashAlphabet()
	valid := func(prepName string, ops []m.Op) bool {
		// keep only histories whose every operation succeeds (an erroring operation has no effect to make durable)
		model := m.NewDB()
		for _, o := range preps[prepName] {
			outs, err := model.Apply(o, nil)
			if err != nil || outs[0].Err != "" {
				return false
			}
			model = outs[0].State
		}
		for _, o := range ops {
			outs, err := model.Apply(o, nil)
			if err != nil || outs[0].Err != "" {
				return false
			}
			model = outs[0].State
		}
		return true
	}
	out := []*eng.CrashHistory{}
	for _, pn := range []string{"empty", "3docs", "3docs+index"} {
		var rec func(cur []m.Op, idx []int)
		rec = func(cur []m.Op, idx []int) {
			if len(cur) > 0 && valid(pn, cur) {
				out = append(out, &eng.CrashHistory{Name: fmt.Sprintf("%s/%v", pn, idx), Prep: preps[pn], Ops: append([]m.Op{}, cur...)})
			}
			if len(cur) == maxLen {
				return
			}
			for i, o := range alpha {
				next := append(append([]m.Op{}, cur...), o)
				if !valid(pn, next) {
					continue
				}
				rec(next, append(append([]int{}, idx...), i))
			}
		}
		rec(nil, nil)
	}
	return out
}

func fixedHistory() *eng.CrashHistory {
	a := crashAlphabet()
	return &eng.CrashHistory{Name: "fixed-6", Prep: []m.Op{{K: "createColl", Coll: "a"}, ins("a", doc(u1, "x", int64(1)), doc(u2, "x", int64(2)), doc(u3, "x", int64(1)))},
		Ops: []m.Op{a[7], a[2], a[4], a[5], a[12], a[9]}}
}

// bigBatchHistory: one Insert of n documents into an indexed collection; crash points thinned by stride.
func bigBatchHistory(n, stride int) *eng.CrashHistory {
	return &eng.CrashHistory{Name: fmt.Sprintf("batch-%d", n), Stride: stride,
		Prep: []m.Op{{K: "createColl", Coll: "a"}, {K: "createIndex", Coll: "a", Field: "x"}, ins("a", doc(u1, "x", int64(1)))},
		Ops:  []m.Op{ins("a", manyDocs(n)...), {K: "delete", Q: qOn("a", m.Leaf("gte", "x", int64(3)))}}}
}

// oversizeHistory: one Insert larger than badger's per-transaction limit (refused there, accepted by bbolt), then a
// small one. A refused operation must leave nothing behind even if the process dies while it is attempted.
func oversizeHistory() *eng.CrashHistory {
	docs := manyDocs(2600)
	for _, d := range docs {
		d["pad"] = strings.Repeat("p", 700)
	}
	return &eng.CrashHistory{Name: "oversize-batch", Stride: 307, MayFail: true,
		Prep: []m.Op{{K: "createColl", Coll: "a"}, {K: "createIndex", Coll: "a", Field: "x"}, ins("a", doc(u1, "x", int64(1)))},
		Ops:  []m.Op{ins("a", docs...), ins("a", doc(u2, "x", int64(2)))}}
}

// bigValueHistory: documents whose values exceed a storage page and badger's value threshold (value log).
func bigValueHistory() *eng.CrashHistory {
	long := strings.Repeat("v", 6000)
	return &eng.CrashHistory{Name: "big-values",
		Prep: []m.Op{{K: "createColl", Coll: "a"}, {K: "createIndex", Coll: "a", Field: "x"}, ins("a", doc(u1, "x", int64(1), "pad", long))},
		Ops: []m.Op{ins("a", doc(u2, "x", int64(2), "pad", long), doc(u3, "x", long)), updID("a", u1, "inplace", "pad", long+"2", "x", int64(9)),
			{K: "delete", Q: qOn("a", m.Leaf("eq", "x", int64(2)))}, {K: "dropIndex", Coll: "a", Field: "x"}}}
}

func init() {
	register("C05", "fault_enumeration", func(run *ev.Run, tier string) string {
		tags := own("crash-state", "reopen", "setup", "harness")
		exe, _ := os.Executable()
		maxLen := 2
		if tier == "thorough" {
			maxLen = 3
		}
		hs := crashHistories(maxLen)
		hs = append(hs, fixedHistory(), bigValueHistory(), bigBatchHistory(700, 41), bigBatchHistory(1300, 97))
		if tier == "thorough" {
			hs = append(hs, bigBatchHistory(2600, 61), bigBatchHistory(5200, 211))
		}
		run.Set("histories", len(hs))
		eng.CrashSnapshots(run, hs, tags)
		// real kills: validates the image model on bbolt and covers badger on disk
		kills := []*eng.CrashHistory{fixedHistory(), bigValueHistory(), bigBatchHistory(1300, 401)}
		if tier == "thorough" {
			kills = append(kills, crashHistories(2)...)
		} else {
			for i, h := range crashHistories(1) {
				if i%3 == 0 {
					kills = append(kills, h)
				}
			}
		}
		run.Set("histories_with_real_kills", len(kills))
		eng.CrashKills(run, exe, drv.BBolt, kills, tags)
		eng.CrashKills(run, exe, drv.BadgerDisk, append(kills, oversizeHistory()), tags)
		// clean close/reopen in every reachable state of a write alphabet
		n, cp := run.Get("evaluations"), run.DistinctCount("crash_points")
		runSS(run, tier, []string{"consistency"}, []string{drv.BBolt}, "", own("reopen"), func(c *eng.SSConfig) { c.Reopen = true; c.MaxDepth = map[string]int{"quick": 4, "thorough": 0}[tier] })
		if tier == "thorough" {
			runSS(run, tier, []string{"consistency"}, []string{drv.BadgerDisk}, "", own("reopen"), func(c *eng.SSConfig) { c.Reopen = true; c.MaxDepth = 3 })
		}
		run.Set("crash_point_evaluations", n)
		run.Set("evaluations", n+run.Get("transitions"))
		run.Set("distinct_nontrivial", cp)
		run.Assume("the property speaks of a killed process: every completed write survives (file images / SIGKILL), power loss with dropped unsynced writes is not modelled")
		run.Assume("for bbolt the file image at a store-call boundary equals what SIGKILL at that instant leaves (pwrite + read-only mmap); this equivalence is itself exercised by the real kills on the same histories")
		return "crash points: every store call (and every gap between operations) of every history of write operations of length <= 2 (thorough: 3) over a 13-operation alphabet (create/drop collection, single and batch insert, point and bulk update/delete, create/drop index, ImportCollection, CreateCollectionByQuery) from three prepared states, plus a fixed 6-operation history and batch inserts of 700 / 1300 (thorough: 2600 / 5200) documents followed by a bulk delete (crash points every 41st / 97th store call); bbolt: the database file image at that instant is reopened with the plain public Open; bbolt and badger-on-disk: a child process replays the history and SIGKILLs itself at store call k for every k, the parent reopens; oracle: the recovered database equals the reference state after all acknowledged operations or additionally the one in flight - documents, counts, catalog, every index answering like a scan, raw key set equal to a canonical rebuild, no repair step; plus clean close/reopen in every reachable state of the 'consistency' alphabet; distinct = distinct crash points"
	})
}
