package checks

import (
	"time"

	"verif/drv"
	"verif/eng"
	"verif/ev"
	"verif/m"
)

var (
	u1 = eng.ID(1)
	u2 = eng.ID(2)
	u3 = "abcdef00-0000-4000-8000-00000000000c" // hex letters: has an upper-case spelling that is a different string
)

func doc(id string, kv ...interface{}) m.Doc {
	d := m.Doc{}
	if id != "" {
		d["_id"] = id
	}
	for i := 0; i+1 < len(kv); i += 2 {
		m.SetPath(d, kv[i].(string), kv[i+1])
	}
	return d
}

func ins(coll string, docs ...m.Doc) m.Op { return m.Op{K: "insert", Coll: coll, Docs: docs} }
func updID(coll, id, style string, kv ...interface{}) m.Op {
	set := map[string]interface{}{}
	for i := 0; i+1 < len(kv); i += 2 {
		set[kv[i].(string)] = kv[i+1]
	}
	return m.Op{K: "updateById", Coll: coll, Id: id, Upd: &m.Updater{Set: set, Style: style}}
}
func qOn(coll string, c *m.Crit) *m.Q { return &m.Q{Coll: coll, Crit: c} }

func budget(tier string, quick, thorough time.Duration) time.Duration {
	if tier == "thorough" {
		return thorough
	}
	return quick
}

func sizesUpTo(n int) []int {
	out := []int{}
	for i := 0; i <= n; i++ {
		out = append(out, i)
	}
	return out
}

func finishSS(run *ev.Run) {
	t := run.Get("transitions")
	run.Set("traces_validated_against_impl", t)
	run.Set("distinct_nontrivial", run.Get("states"))
	run.Assume("a state is the raw key/value content of the store with stored documents decoded; the handle keeps no state of its own, so equal content means equal futures (DESIGN 3.5)")
}

// ---- C06 ----

func alphabetC06() []m.Op {
	return []m.Op{
		{K: "createColl", Coll: "a"}, {K: "createColl", Coll: "ab"}, {K: "dropColl", Coll: "a"}, {K: "dropColl", Coll: "ab"},
		ins("a", doc(u1, "x", int64(1), "xy", int64(2))), ins("a", doc(u2, "x", "s")), ins("ab", doc(u1, "x", int64(1))),
		ins("a", doc(u2, "x", int64(1)), doc(u1, "xy", "q")),
		ins("a", doc(u3, "x", int64(1)), doc(u3, "x", int64(2), "xy", int64(3))), // the same _id twice in one batch
		updID("a", u1, "copy", "x", int64(2)), updID("a", u1, "inplace", "x", "s", "xy", nil),
		{K: "update", Q: qOn("a", m.Leaf("eq", "x", int64(1))), Set: map[string]interface{}{"x": int64(5)}},
		{K: "updateFunc", Q: qOn("a", nil), Upd: &m.Updater{Set: map[string]interface{}{"xy": int64(1)}, Style: "inplace"}},
		{K: "deleteById", Coll: "a", Id: u1}, {K: "deleteById", Coll: "a", Id: u3},
		{K: "delete", Q: qOn("a", m.Leaf("eq", "x", int64(1)))}, {K: "delete", Q: qOn("a", nil)},
		{K: "createIndex", Coll: "a", Field: "x"}, {K: "createIndex", Coll: "a", Field: "xy"}, {K: "createIndex", Coll: "ab", Field: "x"},
		{K: "dropIndex", Coll: "a", Field: "x"}, {K: "dropIndex", Coll: "a", Field: "xy"},
		{K: "replaceById", Coll: "a", Id: u2, Docs: []m.Doc{doc(u2, "x", int64(1))}},
		// an update function that removes the documents it is given: documents, index entries and the count go together
		{K: "updateFunc", Q: qOn("a", m.Leaf("eq", "x", int64(1))), Upd: &m.Updater{Nil: true}},
	}
}

func init() {
	both := []string{drv.BBolt, drv.Badger}
	register("C06", "model_checking", func(run *ev.Run, tier string) string {
		runSS(run, tier, []string{"consistency", "names3", "indexes", "nested"}, both, "", own("count", "rawkeys", "indexquery", "rebuild"), nil)
		// multi-page collections: drops, index builds and bulk rewrites at every size
		eng.BulkSweep(&eng.BulkConfig{Backends: both, Sizes: sizesUpTo(map[string]int{"quick": 72, "thorough": 300}[tier]), Pads: []int{0}, IndexSets: [][]string{{"x"}, {"x", "xy"}},
			Ops: eng.BulkOpsNamed("delete-all", "updatefunc-all-inplace", "update-rewrites-filter-field", "drop-and-recreate", "create-index-on-existing", "create-index-prefix-sibling", "drop-index-x")},
			run, own("count", "rawkeys", "indexquery", "rebuild"))
		run.Set("distinct_nontrivial", run.Get("states")+int64(run.DistinctCount("cases")))
		return "every collection size 0..72 (thorough 300) x index sets x / x+xy x {delete all, in-place update of all, update of the filtered field, drop and re-create, index build on existing documents, drop of an index beside a prefix-named sibling} on both backends with the same three oracles; and breadth-first search over the real database to a fixpoint (all reachable states) of three alphabets: 'consistency' (two prefix-related collections, shared ids, indexes x and xy, deletes of absent ids, drops and re-creations, in-place and copying updaters, failing operations), 'names3' (three prefix-related collection names) and 'indexes' (fields x, xy, n, n.a); in every new state the raw key set is compared with a canonical rebuild of the model state, Count with the number of documents, and every index with a scan; distinct_nontrivial = distinct raw states"
	})
	register("C13", "model_checking", func(run *ev.Run, tier string) string {
		tags := own("catalog-coll", "err", "state", "count", "rawkeys", "indexquery", "catalog-index", "error-changed-state", "apply")
		runSS(run, tier, []string{"names3", "names7"}, both, "", tags, nil)
		eng.NameLengthSweep(run, both, map[string]int{"quick": 1200, "thorough": 2500}[tier], tags)
		// DropCollection / re-creation of a multi-page collection beside a prefix-named sibling collection
		eng.BulkSweep(&eng.BulkConfig{Backends: both, Sizes: sizesUpTo(map[string]int{"quick": 72, "thorough": 300}[tier]), Pads: []int{0}, IndexSets: [][]string{{}, {"x"}},
			Ops: eng.BulkOpsNamed("drop-and-recreate", "delete-all")}, run, tags)
		run.Set("distinct_nontrivial", run.Get("states")+int64(run.DistinctCount("cases")))
		return "DropCollection + re-creation and Delete(all) at every collection size 0..72 (thorough 300) beside a prefix-named sibling collection; and breadth-first search: create/drop/insert/delete/update/createIndex/dropIndex on every collection name of the alphabet in every reachable state (fixpoint for 3 prefix-related names; depth-bounded for 7 names incl. empty, unicode and names that look like internal prefixes); after every transition ListCollections/HasCollection, every collection's documents, count and indexes, the sentinel errors and the raw key set (vs canonical rebuild, which contains the untouched collections) are compared with the reference model"
	})
	register("C14", "model_checking", func(run *ev.Run, tier string) string {
		tags := own("catalog-index", "err", "indexquery", "rawkeys", "find", "error-changed-state")
		runSS(run, tier, []string{"indexes", "consistency"}, both, "", tags, nil)
		eng.BulkSweep(&eng.BulkConfig{Backends: both, Sizes: sizesUpTo(map[string]int{"quick": 72, "thorough": 300}[tier]), Pads: []int{0}, IndexSets: [][]string{{"x"}, {"x", "xy"}},
			Ops: eng.BulkOpsNamed("create-index-on-existing", "create-index-prefix-sibling", "drop-index-x")}, run, tags)
		run.Set("distinct_nontrivial", run.Get("states")+int64(run.DistinctCount("cases")))
		return "CreateIndex on existing documents and DropIndex beside a prefix-named sibling index at every collection size 0..72 (thorough 300); and breadth-first search to a fixpoint: CreateIndex/DropIndex on fields x, xy, n, n.a (prefix pair and dotted pair) interleaved with inserts, updates (copying and in-place) and deletes; after every transition HasIndex/ListIndexes, sentinel errors, 48 probe queries served by each index (range, equality, sort-only in both directions) and the raw key set are compared with the reference model"
	})
	register("C12", "model_checking", func(run *ev.Run, tier string) string {
		runSS(run, tier, []string{"ids", "idforms"}, both, "", own("id", "err", "state", "apply", "error-changed-state", "rawkeys", "count", "indexquery"), nil)
		// a duplicate or malformed _id late in a batch of more than a thousand documents: ErrDuplicateKey / an error, and nothing changed
		bigBatchInvalidSizes(run, []int{1100, 2300}, []string{"last"}, []string{"dup-in-batch", "dup-stored", "malformed"})
		return "breadth-first search to a fixpoint over an _id-focused alphabet on two collections sharing ids: inserts with supplied / missing / empty / malformed / non-string / duplicate ids (duplicates at every batch position), Save (new, existing, unknown id), ReplaceById (matching, mismatching), UpdateById/Update/UpdateFunc rewriting _id to an existing, a new and an invalid id; invariant in every state: FindById(c,id) is nil or has _id == id and is non-nil exactly for live ids, contents equal the reference model, generated ids are fresh canonical UUIDs"
	})
	register("C09", "model_checking", func(run *ev.Run, tier string) string {
		runSS(run, tier, []string{"derived"}, both, "", own("derived"), nil)
		fs, n := drv.BuilderImmutability()
		run.Add("builder_calls", int64(n))
		for _, f := range fs {
			if f.Tag == "derived" {
				run.Violation("builder|"+f.Msg[:20], f.Msg, map[string]interface{}{"engine": "builders", "finding": f.Msg})
			}
		}
		return "in every reachable state of the 'consistency' alphabet (fixpoint), for 12 queries (criteria present/absent, sort, skip/limit incl. 0 and negative values, index present or not): Count = len(FindAll), Exists, FindFirst = FindAll[0], ForEach with a consumer stopping at every position j <= len+1 visits FindAll[:j] and is never called again, FindById non-nil iff live; the query object's getters are compared before/after every call"
	})
}
