// Package checks holds one entry point per property: alphabets, bounds per tier, oracle routing.
package checks

import (
	"fmt"
	"time"

	"verif/eng"
	"verif/m"
)

var i64 = func(n int) interface{} { return int64(n) }

// LeavesQuick: leaf criteria over the default dataset's fields.
func LeavesQuick() []*m.Crit {
	fy := m.FieldRef{Name: "y"}
	return []*m.Crit{
		m.Leaf("eq", "x", i64(1)), m.Leaf("eq", "x", nil), m.Leaf("eq", "x", "a"), m.Leaf("neq", "x", i64(1)),
		m.Leaf("gt", "x", i64(1)), m.Leaf("gte", "x", i64(2)), m.Leaf("lt", "x", i64(2)), m.Leaf("lte", "x", float64(2.5)),
		m.Leaf("gt", "x", nil), m.Leaf("lt", "x", "ab"), m.Leaf("lte", "x", true), m.Leaf("gte", "x", []interface{}{int64(1)}),
		m.In("x", i64(1), "a"), m.In("x", nil), m.Exists("x"), m.NotExists("x"), m.Like("x", "^a"), m.Contains("x", i64(1)),
		m.Leaf("gt", "x", fy), m.Leaf("eq", "x", "$y"),
		m.Leaf("eq", "y", i64(1)), m.Leaf("gt", "y", i64(1)), m.Leaf("eq", "xy", i64(1)), m.Leaf("eq", "n.a", i64(1)),
		m.Exists("n.a"), m.Func("hasX"),
	}
}

// LeavesMore: additional leaves for the thorough tier.
func LeavesMore() []*m.Crit {
	fy := m.FieldRef{Name: "y"}
	fx := m.FieldRef{Name: "x"}
	t0 := time.Unix(0, 0).UTC()
	out := []*m.Crit{}
	for _, f := range []string{"x", "y"} {
		for _, op := range []string{"eq", "neq", "gt", "gte", "lt", "lte"} {
			for _, v := range []interface{}{nil, i64(1), uint64(2), float64(2.5), i64(4), i64(-3), "a", "ab", "", true, false,
				[]interface{}{int64(1)}, []interface{}{}, map[string]interface{}{"k": int64(1)}, map[string]interface{}{}, t0} {
				out = append(out, m.Leaf(op, f, v))
			}
		}
	}
	out = append(out,
		m.Leaf("eq", "x", fy), m.Leaf("lt", "x", fy), m.Leaf("gte", "x", "$y"), m.Leaf("neq", "x", "$y"), m.Leaf("eq", "y", fx),
		m.Leaf("eq", "x", m.FieldRef{Name: "zz"}), m.Leaf("gt", "x", "$zz"),
		m.In("x"), m.In("x", fy), m.In("x", "$y", i64(4)), m.In("y", nil, i64(1)), m.In("x", fx),
		m.Contains("x"), m.Contains("y", i64(1), "a"), m.Contains("y", "$x"), m.Contains("x", fy),
		m.Like("x", "b$"), m.Like("x", "("), m.Like("y", "a"), m.Exists("y"), m.NotExists("y"), m.Exists("n"), m.NotExists("n.a"), m.Exists("zz"),
		m.Leaf("gt", "xy", i64(0)), m.Leaf("lte", "xy", "q"), m.Leaf("eq", "n", i64(7)), m.Leaf("gt", "n.a", nil), m.Leaf("lt", "n.a", "s"),
		m.Leaf("eq", "n.a", nil), m.Leaf("eq", "_id", eng.ID(3)), m.Leaf("gt", "_id", eng.ID(6)),
		m.Func("xIsInt64"), m.Func("never"),
	)
	return out
}

// Depth1 returns leaves, their negations, and every And/Or of two of them.
func Depth1(leaves []*m.Crit) []*m.Crit {
	out := []*m.Crit{}
	out = append(out, leaves...)
	for _, l := range leaves {
		out = append(out, m.Not(l))
	}
	for _, a := range leaves {
		for _, b := range leaves {
			out = append(out, m.And(a, b), m.Or(a, b))
		}
	}
	return out
}

// Depth2 returns every tree of depth <= 2 over the leaves (Not / And / Or over depth <= 1 trees).
func Depth2(leaves []*m.Crit) []*m.Crit {
	d1 := Depth1(leaves)
	out := append([]*m.Crit{}, d1...)
	for _, a := range d1 {
		if a.Op != "eq" && a.Op != "gt" { // plain leaves were already negated in d1
			out = append(out, m.Not(a))
		}
	}
	for _, a := range d1 {
		for _, b := range d1 {
			if a.Size() == 1 && b.Size() == 1 {
				continue // already in d1
			}
			out = append(out, m.And(a, b), m.Or(a, b))
		}
	}
	return out
}

func sortBy(f string, dir int) []m.SortOpt { return []m.SortOpt{{Field: f, Dir: dir}} }

// ShapesBasic: no sort / sort on x both directions / sort on y / two keys / default sort, with a few windows.
func ShapesBasic() []eng.Shape {
	return []eng.Shape{
		{},
		{Sort: sortBy("x", 1)}, {Sort: sortBy("x", -1)}, {Sort: sortBy("y", -1)},
		{Sort: []m.SortOpt{{Field: "y", Dir: 1}, {Field: "x", Dir: -1}}},
		{Sort: sortBy("x", 1), SkipSet: true, Skip: 1, LimitSet: true, Limit: 2},
		{Sort: sortBy("x", -1), LimitSet: true, Limit: 1},
		{SkipSet: true, Skip: 1, LimitSet: true, Limit: 2},
	}
}

var allTwinSets = [][]string{{}, {"x"}, {"y"}, {"x", "y"}, {"xy"}, {"x", "xy"}, {"n"}, {"n.a"}, {"n", "n.a"}, {"y", "x"}, {"_id"}, {"_id", "x"}}

// Twins: every index set built with indexes created first, plus selected sets built in every order.
func Twins(allOrders bool) []eng.Twin {
	out := []eng.Twin{}
	n := 0
	add := func(idx []string, order int) {
		out = append(out, eng.Twin{Name: fmt.Sprintf("t%d", n), Indexes: idx, Order: order})
		n++
	}
	for _, s := range allTwinSets {
		add(s, 0)
	}
	orders := [][]string{{"x"}, {"x", "xy"}, {"n.a"}}
	if allOrders {
		orders = allTwinSets[1:]
	}
	for _, s := range orders {
		for o := 1; o <= 3; o++ {
			add(s, o)
		}
	}
	return out
}
