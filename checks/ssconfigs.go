package checks

import (
	"strings"
	"time"

	"verif/drv"
	"verif/eng"
	"verif/ev"
	"verif/m"
)

func setMap(kv ...interface{}) map[string]interface{} {
	set := map[string]interface{}{}
	for i := 0; i+1 < len(kv); i += 2 {
		set[kv[i].(string)] = kv[i+1]
	}
	return set
}

// ---- alphabets ----

func alphabetNames(names []string) []m.Op {
	out := []m.Op{}
	for _, n := range names {
		out = append(out,
			m.Op{K: "createColl", Coll: n}, m.Op{K: "dropColl", Coll: n},
			ins(n, doc(u1, "x", int64(1))), ins(n, doc(u2, "x", int64(2))),
			m.Op{K: "deleteById", Coll: n, Id: u1},
			m.Op{K: "update", Q: qOn(n, nil), Set: setMap("x", int64(3))},
			m.Op{K: "delete", Q: qOn(n, m.Leaf("gte", "x", int64(2)))},
			m.Op{K: "createIndex", Coll: n, Field: "x"}, m.Op{K: "dropIndex", Coll: n, Field: "x"},
		)
	}
	// a collection created from a query: on another collection (present or missing), and on the very name being created
	out = append(out, m.Op{K: "createByQuery", Coll: names[1], Q: qOn(names[0], m.Leaf("gte", "x", int64(2)))},
		m.Op{K: "createByQuery", Coll: names[0], Q: qOn(names[0], nil)},
		// importing a file that holds no documents still creates the (empty) collection, or fails on an existing name
		m.Op{K: "import", Coll: names[len(names)-1], Text: emptyImportFile(), Docs: []m.Doc{}})
	return out
}

var emptyImportPath string

func emptyImportFile() string {
	if emptyImportPath == "" {
		emptyImportPath = drv.WriteTemp("empty-import.json", "[]")
	}
	return emptyImportPath
}

var fieldsC14 = []string{"x", "xy", "n", "n.a"}

func alphabetIndexes() []m.Op {
	out := []m.Op{}
	for _, f := range fieldsC14 {
		out = append(out, m.Op{K: "createIndex", Coll: "a", Field: f}, m.Op{K: "dropIndex", Coll: "a", Field: f})
	}
	out = append(out,
		m.Op{K: "createIndex", Coll: "zz", Field: "x"}, m.Op{K: "dropIndex", Coll: "zz", Field: "x"},
		ins("a", doc(u1, "x", int64(1), "xy", int64(2), "n.a", int64(1))),
		ins("a", doc(u2, "x", int64(2), "xy", int64(1), "n", int64(5))),
		updID("a", u1, "copy", "x", int64(3)), updID("a", u1, "inplace", "n.a", int64(2)), updID("a", u1, "copy", "n", int64(7)),
		updID("a", u2, "inplace", "xy", "s"),
		m.Op{K: "deleteById", Coll: "a", Id: u1},
		m.Op{K: "delete", Q: qOn("a", m.Leaf("gt", "xy", int64(1)))},
		// one bulk update over two indexed fields of which the first document already holds one value
		m.Op{K: "update", Q: qOn("a", nil), Set: setMap("x", int64(1), "xy", int64(7))},
	)
	return out
}

func probesIndexes() []*m.Q {
	out := []*m.Q{}
	for _, f := range fieldsC14 {
		for _, c := range []*m.Crit{m.Leaf("eq", f, int64(1)), m.Leaf("gte", f, int64(2)), m.Leaf("lt", f, int64(3)), m.Leaf("lte", f, int64(7)), m.Leaf("gt", f, nil), m.Exists(f)} {
			out = append(out, qOn("a", c), &m.Q{Coll: "a", Crit: c, Sort: sortBy(f, -1)})
		}
	}
	return out
}

func alphabetIDs() []m.Op {
	out := []m.Op{}
	for _, c := range []string{"a", "b"} {
		out = append(out,
			ins(c, doc(u1, "v", int64(1))), ins(c, doc(u2, "v", int64(2))),
			ins(c, doc("", "v", int64(3))),                                                 // no _id: generated
			ins(c, m.Doc{"_id": "", "v": int64(4)}),                                        // empty _id
			ins(c, doc(u1, "v", int64(5)), doc(u2, "v", int64(5)), doc(u1, "v", int64(6))), // duplicate inside the batch (last)
			ins(c, doc(u3, "v", int64(7)), doc(u3, "v", int64(8))),                         // duplicate inside the batch (adjacent)
			ins(c, doc(u3, "v", int64(9)), doc(u1, "v", int64(9))),                         // second may duplicate a stored id
			m.Op{K: "insertTwice", Coll: c, Docs: []m.Doc{doc("", "v", int64(18))}}, // one id-less document object listed twice
			m.Op{K: "insertTwice", Coll: c, Docs: []m.Doc{doc(u3, "v", int64(19))}},
			m.Op{K: "save", Coll: c, Docs: []m.Doc{doc("", "v", int64(10))}},
			m.Op{K: "save", Coll: c, Docs: []m.Doc{doc(u1, "v", int64(11))}},
			m.Op{K: "saveStruct", Coll: c, Docs: []m.Doc{doc(u2, "v", int64(17))}},
			m.Op{K: "save", Coll: c, Docs: []m.Doc{doc(u3, "v", int64(12))}},
			m.Op{K: "replaceById", Coll: c, Id: u1, Docs: []m.Doc{doc(u1, "v", int64(13))}},
			m.Op{K: "replaceById", Coll: c, Id: u1, Docs: []m.Doc{doc(u2, "v", int64(14))}},
			m.Op{K: "replaceById", Coll: c, Id: u2, Docs: []m.Doc{doc("", "v", int64(15))}},
			updID(c, u1, "copy", "_id", u2), updID(c, u1, "inplace", "_id", u3), updID(c, u2, "copy", "_id", "garbage"),
			updID(c, u2, "inplace", "v", int64(16)),
			// the same uuid spelled in upper case is a different _id string
			m.Op{K: "replaceById", Coll: c, Id: u3, Docs: []m.Doc{doc(strings.ToUpper(u3), "v", int64(18))}},
			updID(c, u3, "copy", "_id", strings.ToUpper(u3)),
			m.Op{K: "update", Q: qOn(c, m.Leaf("eq", "_id", u1)), Set: setMap("_id", u3)},
			m.Op{K: "updateFunc", Q: qOn(c, nil), Upd: &m.Updater{Set: setMap("_id", u2), Style: "inplace"}},
			m.Op{K: "deleteById", Coll: c, Id: u1},
		)
	}
	out = append(out,
		ins("a", m.Doc{"_id": "not-a-uuid", "v": int64(20)}),
		ins("a", m.Doc{"_id": int64(5), "v": int64(21)}),
		ins("a", doc(u3, "v", int64(22)), m.Doc{"_id": "zz", "v": int64(22)}),
		ins("a", doc(u3, "_expiresAt", "soon")),
		ins("a", doc(u3, "_expiresAt", time.Date(2099, 1, 1, 0, 0, 0, 0, time.UTC), "v", int64(23))),
		m.Op{K: "createIndex", Coll: "a", Field: "v"},
	)
	return out
}

var valuesC01 = []interface{}{nil, int64(1), float64(2.5), "s", []interface{}{int64(1), "s"}, map[string]interface{}{"k": nil}}

func alphabetValues() []m.Op {
	out := []m.Op{
		{K: "createColl", Coll: "ab"}, {K: "dropColl", Coll: "a"},
		{K: "createIndex", Coll: "a", Field: "x"}, {K: "dropIndex", Coll: "a", Field: "x"},
		ins("a", doc(u1)), ins("ab", doc(u1, "x", int64(1))),
		{K: "deleteById", Coll: "a", Id: u1}, {K: "delete", Q: qOn("a", m.Leaf("gt", "x", int64(1)))},
	}
	for i, v := range valuesC01 {
		id := u1
		if i%2 == 1 {
			id = u2
		}
		out = append(out, ins("a", doc(id, "x", v)))
		out = append(out, updID("a", u1, []string{"copy", "inplace"}[i%2], "x", v))
		out = append(out, m.Op{K: "replaceById", Coll: "a", Id: u2, Docs: []m.Doc{doc(u2, "x", v, "y", int64(i))}})
	}
	out = append(out,
		// the same number in another Go type is a different document value
		updID("a", u1, "copy", "x", uint64(1)), updID("a", u1, "inplace", "x", float64(1)),
		ins("a", doc(u3, "x", int64(1), "y", "q"), doc(u2, "x", "s")),
		m.Op{K: "save", Coll: "a", Docs: []m.Doc{doc(u3, "x", uint64(1))}},
		m.Op{K: "update", Q: qOn("a", m.Leaf("lte", "x", int64(1))), Set: setMap("x", float64(2.5), "z", true)},
	)
	return out
}

func probesValues() []*m.Q {
	out := []*m.Q{}
	for _, c := range LeavesQuick() {
		out = append(out, qOn("a", c))
	}
	out = append(out,
		qOn("a", m.Not(m.Leaf("eq", "x", int64(1)))), qOn("a", m.Or(m.Leaf("lt", "x", int64(2)), m.Leaf("gt", "x", "a"))),
		qOn("a", m.And(m.Leaf("gte", "x", int64(1)), m.Leaf("lte", "x", "s"))),
		&m.Q{Coll: "a", Sort: sortBy("x", 1)}, &m.Q{Coll: "a", Sort: sortBy("x", -1), LimitSet: true, Limit: 2},
		&m.Q{Coll: "a", Crit: m.Leaf("lte", "x", "s"), Sort: sortBy("x", -1)},
		qOn("ab", m.Leaf("eq", "x", int64(1))),
	)
	return out
}

// alphabetNested: objects nested in documents, an index on a dotted path (and on the enclosing object), rewritten
// through the dotted path (bulk and by id, copying and in place) and as a whole.
func alphabetNested() []m.Op {
	return []m.Op{
		{K: "createIndex", Coll: "a", Field: "n.a"}, {K: "dropIndex", Coll: "a", Field: "n.a"}, {K: "createIndex", Coll: "a", Field: "n"},
		ins("a", doc(u1, "n.a", int64(1), "n.b", "keep")), ins("a", doc(u2, "n.a", int64(2)), doc(u3, "n", int64(5))),
		{K: "update", Q: qOn("a", m.Exists("n.a")), Set: setMap("n.a", int64(4))},
		{K: "update", Q: qOn("a", m.Leaf("lte", "n.a", int64(2))), Set: setMap("n.c.d", "deep")},
		updID("a", u1, "inplace", "n.a", int64(2)), updID("a", u1, "copy", "n.a", int64(3)),
		updID("a", u2, "copy", "n", map[string]interface{}{"a": int64(1)}), updID("a", u3, "inplace", "n.a", int64(1)),
		{K: "updateFunc", Q: &m.Q{Coll: "a", Crit: m.Leaf("gte", "n.a", int64(1)), Sort: sortBy("n.a", -1)}, Upd: &m.Updater{Set: setMap("n.a", int64(0)), Style: "inplace"}},
		{K: "replaceById", Coll: "a", Id: u1, Docs: []m.Doc{doc(u1, "n.a", int64(2))}},
		{K: "deleteById", Coll: "a", Id: u2}, {K: "delete", Q: qOn("a", m.Leaf("eq", "n.a", int64(4)))},
		// an indexed field holding a slice, rewritten element by element inside the document the updater receives
		updID("a", u3, "copy", "n", []interface{}{int64(1), map[string]interface{}{"k": int64(1)}}),
		updID("a", u3, "inplace-elems", "n", []interface{}{int64(7), map[string]interface{}{"k": int64(2)}}),
		{K: "updateFunc", Q: qOn("a", m.Leaf("gt", "n", int64(5))), Upd: &m.Updater{Set: setMap("n", []interface{}{int64(8), map[string]interface{}{"k": int64(1)}}), Style: "inplace-elems"}},
	}
}

func probesNested() []*m.Q {
	out := []*m.Q{}
	for _, c := range []*m.Crit{m.Leaf("gte", "n.a", int64(0)), m.Leaf("lt", "n.a", int64(3)), m.Leaf("eq", "n.a", int64(2)), m.Exists("n.a"), m.Leaf("eq", "n.b", "keep"), m.Leaf("gt", "n", nil), m.Leaf("eq", "n.c.d", "deep")} {
		out = append(out, qOn("a", c), &m.Q{Coll: "a", Crit: c, Sort: sortBy("n.a", -1)})
	}
	return append(out, &m.Q{Coll: "a", Sort: sortBy("n.a", 1)}, &m.Q{Coll: "a", Sort: sortBy("n", 1)})
}

// alphabetIDForms: the same uuid in lower and in upper case are two different _id strings; each must be kept exactly
// as supplied by every write path, and found only under its own spelling.
func alphabetIDForms() []m.Op {
	up := strings.ToUpper(u3)
	return []m.Op{
		ins("a", doc(up, "v", int64(1))), ins("a", doc(u3, "v", int64(2))), ins("a", doc(u1, "v", int64(3)), doc(up, "v", int64(4))),
		{K: "insertOne", Coll: "a", Docs: []m.Doc{doc(up, "v", int64(5))}},
		{K: "save", Coll: "a", Docs: []m.Doc{doc(up, "v", int64(6))}},
		{K: "replaceById", Coll: "a", Id: up, Docs: []m.Doc{doc(up, "v", int64(7))}},
		{K: "replaceById", Coll: "a", Id: up, Docs: []m.Doc{doc(u3, "v", int64(8))}},
		updID("a", up, "inplace", "v", int64(9)), updID("a", u3, "copy", "v", int64(10)),
		{K: "update", Q: qOn("a", m.Leaf("gte", "v", int64(1))), Set: setMap("w", true)},
		{K: "updateFunc", Q: &m.Q{Coll: "a", Sort: sortBy("v", 1)}, Upd: &m.Updater{Set: setMap("v", int64(0)), Style: "inplace"}},
		{K: "deleteById", Coll: "a", Id: up}, {K: "deleteById", Coll: "a", Id: u3}, {K: "delete", Q: qOn("a", m.Leaf("eq", "v", int64(0)))},
		{K: "createIndex", Coll: "a", Field: "v"},
	}
}

type critPtr = *m.Crit

func derivedQueries() []*m.Q {
	x1 := m.Leaf("eq", "x", int64(1))
	return []*m.Q{
		{Coll: "a"}, {Coll: "a", Crit: x1}, {Coll: "a", Sort: sortBy("x", 1)}, {Coll: "a", Sort: sortBy("x", -1), LimitSet: true, Limit: 1},
		{Coll: "a", SkipSet: true, Skip: 1}, {Coll: "a", Crit: m.Leaf("gte", "x", int64(1)), Sort: sortBy("xy", 1)},
		{Coll: "a", LimitSet: true, Limit: 0}, {Coll: "a", SkipSet: true, Skip: 1, LimitSet: true, Limit: 1},
		{Coll: "a", SkipSet: true, Skip: -1, LimitSet: true, Limit: -1}, {Coll: "a", Crit: m.Leaf("lte", "x", "s"), Sort: sortBy("x", -1), SkipSet: true, Skip: 1},
		{Coll: "a", SortDef: true}, {Coll: "ab", Crit: x1},
		// literals supplied as plain Go ints: normalisation must work on a copy, never on the caller's criteria
		{Coll: "a", Crit: &m.Crit{Op: "in", Field: "x", Vals: []interface{}{int64(1), int64(2), "s"}, Kind: "int"}},
		{Coll: "a", Crit: m.And(&m.Crit{Op: "contains", Field: "xy", Vals: []interface{}{int64(1)}, Kind: "int8"}, &m.Crit{Op: "eq", Field: "x", Val: int64(1), Kind: "uint16"})},
	}
}

// ---- configurations ----

var names3 = []string{"a", "ab", "a.b"}
var names7 = []string{"a", "ab", "a.b", "", "é", "coll:", "c:a", "ad:", "ai:x"}

func ssConfigs(tier string) map[string]*eng.SSConfig {
	q, t := 90*time.Second, 10*time.Minute
	return map[string]*eng.SSConfig{
		"consistency": {Name: "consistency", Alphabet: alphabetC06(), Raw: true, Budget: budget(tier, q, t)},
		"names3":      {Name: "names3", Alphabet: alphabetNames(names3), Raw: true, Audit: drv.AuditOpts{Names: names7}, Budget: budget(tier, q, t)},
		"names7":      {Name: "names7", Alphabet: alphabetNames(names7), Raw: true, Audit: drv.AuditOpts{Names: names7}, MaxDepth: map[string]int{"quick": 3, "thorough": 4}[tier], Budget: budget(tier, q, t)},
		"indexes":     {Name: "indexes", Init: []m.Op{{K: "createColl", Coll: "a"}}, Alphabet: alphabetIndexes(), Raw: true, Audit: drv.AuditOpts{Fields: fieldsC14, Probes: probesIndexes()}, Budget: budget(tier, q, t)},
		"ids":         {Name: "ids", Init: []m.Op{{K: "createColl", Coll: "a"}, {K: "createColl", Coll: "b"}}, Alphabet: alphabetIDs(), Raw: true, Budget: budget(tier, q, t)},
		"values":      {Name: "values", Init: []m.Op{{K: "createColl", Coll: "a"}}, Alphabet: alphabetValues(), Audit: drv.AuditOpts{Probes: probesValues()}, Budget: budget(tier, q, t)},
		"idforms":     {Name: "idforms", Init: []m.Op{{K: "createColl", Coll: "a"}}, Alphabet: alphabetIDForms(), Raw: true, Budget: budget(tier, q, t)},
		"nested":      {Name: "nested", Init: []m.Op{{K: "createColl", Coll: "a"}}, Alphabet: alphabetNested(), Raw: true, Audit: drv.AuditOpts{Probes: probesNested()}, Budget: budget(tier, q, t)},
		"derived":     {Name: "derived", Alphabet: alphabetC06(), Derived: derivedQueries(), Budget: budget(tier, q, t)},
	}
}

// runSS runs the named configurations on the given backends with the property's own tags.
func runSS(run *ev.Run, tier string, names []string, backends []string, twin string, tags map[string]bool, tweak func(*eng.SSConfig)) {
	cfgs := ssConfigs(tier)
	for _, n := range names {
		for _, b := range backends {
			c := *cfgs[n]
			c.Backend, c.Twin, c.Own = b, twin, tags
			if tweak != nil {
				tweak(&c)
			}
			eng.StateSpace(&c, run)
		}
	}
	finishSS(run)
}
