package checks

import (
	"verif/ev"
)

type Check struct {
	ID    string
	Level string
	Run   func(run *ev.Run, tier string) string // returns the coverage rule text
}

var Registry = map[string]*Check{}

func register(id, level string, f func(run *ev.Run, tier string) string) {
	Registry[id] = &Check{ID: id, Level: level, Run: f}
}

func own(tags ...string) map[string]bool {
	o := map[string]bool{}
	for _, t := range tags {
		o[t] = true
	}
	return o
}
