package checks

import (
	"math"
	"fmt"

	"github.com/ostafen/clover/v2/query"
	"verif/drv"
	"verif/eng"
	"verif/ev"
	"verif/m"
)

// sortOptionAliasing: a query built with Sort(opts...) must keep ordering by the options it was given, whatever the
// caller does with its own slice afterwards (re-using it for the next query is the natural way to page or to build
// the descending twin).
func sortOptionAliasing(run *ev.Run) {
	in := drv.MustOpen(drv.BBolt)
	defer in.Close()
	in.DB.CreateCollection("a")
	docs := eng.DefaultDataset()
	for _, d := range docs {
		in.DB.Insert("a", drv.Doc(d))
	}
	for _, indexed := range []bool{false, true} {
		if indexed {
			in.DB.CreateIndex("a", "x")
		}
		for _, first := range []query.SortOption{{Field: "x", Direction: 1}, {Field: "x", Direction: 0}, {Field: "y", Direction: -5}} {
			opts := []query.SortOption{first, {Field: "_id", Direction: 1}}
			want := []query.SortOption{opts[0], opts[1]}
			q := query.NewQuery("a").Sort(opts...)
			opts[0].Direction, opts[0].Field, opts[1].Direction = -opts[0].Direction-1, "_id", -1 // the caller re-uses its slice
			got, err1 := in.DB.FindAll(q)
			ref, err2 := in.DB.FindAll(query.NewQuery("a").Sort(want[0], want[1]))
			run.Add("evaluations", 2)
			if err1 != nil || err2 != nil || len(got) != len(ref) {
				run.Violation("sort-alias-error", fmt.Sprintf("sorted query failed: %v %v", err1, err2), nil)
				continue
			}
			for i := range got {
				if got[i].ObjectId() != ref[i].ObjectId() {
					run.Violation(fmt.Sprintf("sort-alias|indexed=%v", indexed), fmt.Sprintf("a query built with Sort(%v...) changed its order after the caller modified its own option slice (position %d: %s, expected %s)", want, i, got[i].ObjectId(), ref[i].ObjectId()),
						map[string]interface{}{"engine": "sort-aliasing", "options": fmt.Sprint(want), "indexed": indexed})
					break
				}
			}
		}
	}
}

func init() {
	register("C19", "exploration", func(run *ev.Run, tier string) string {
		stride := 7
		if tier == "thorough" {
			stride = 1
		}
		for _, b := range []string{drv.BBolt, drv.Badger} {
			eng.JSONSweep(run, b, 3, stride)
		}
		run.Set("distinct_nontrivial", run.DistinctCount("collections"))
		return "every collection of 0, 1 and 2 documents (and 3 documents: every combination in the thorough tier, every 7th in the quick tier) over a JSON-representable grammar (nil, bool, integers incl. 2^53, floats, strings incl. escapes and unicode, times in two zones, arrays and objects to depth 2), source with and without indexes: ExportCollection then ImportCollection under a new name; oracle: same ids and field sets, values equal after JSON typing (numbers numerically, times as RFC 3339 text), export leaves the raw database content unchanged; 16 failure modes (existing name, missing file, directory, truncated / non-JSON / non-array / array of non-objects / null elements / duplicate, malformed and numeric ids / empty file): an error and every existing collection intact; distinct = distinct source collections"
	})
	register("C08", "exploration", func(run *ev.Run, tier string) string {
		fields := []string{"x", "y", "_id", "n.a"}
		sorts := [][]m.SortOpt{}
		for _, f := range fields {
			for _, d := range []int{-7, -1, 0, 1, 5} {
				sorts = append(sorts, []m.SortOpt{{Field: f, Dir: d}})
			}
		}
		for _, f := range fields {
			for _, g := range fields {
				if f == g {
					continue
				}
				for _, d := range [][2]int{{1, 1}, {1, -1}, {-7, 0}, {-1, -1}} {
					sorts = append(sorts, []m.SortOpt{{Field: f, Dir: d[0]}, {Field: g, Dir: d[1]}})
				}
			}
		}
		size := len(eng.DefaultDataset())
		wins := []int{-1, 0, 1, 2, size - 1, size, size + 1, math.MaxInt, math.MinInt} // the extremes: "no limit" idioms, and window arithmetic that must not overflow
		shapes := []eng.Shape{}
		addWindows := func(base eng.Shape) {
			shapes = append(shapes, base)
			for _, sk := range wins {
				for _, li := range wins {
					s := base
					s.SkipSet, s.Skip, s.LimitSet, s.Limit = true, sk, true, li
					shapes = append(shapes, s)
				}
			}
		}
		addWindows(eng.Shape{})
		addWindows(eng.Shape{SortDef: true})
		for i, so := range sorts {
			if tier != "thorough" && i >= 20 && i%3 != 0 {
				shapes = append(shapes, eng.Shape{Sort: so}, eng.Shape{Sort: so, SkipSet: true, Skip: 2, LimitSet: true, Limit: 3})
				continue
			}
			addWindows(eng.Shape{Sort: so})
		}
		crits := []*m.Crit{nil, m.Leaf("gte", "x", int64(1)), m.And(m.Leaf("gt", "x", int64(0)), m.Leaf("lte", "x", "a")), m.Or(m.Leaf("eq", "y", int64(1)), m.NotExists("x")), m.Leaf("lte", "y", int64(2))}
		twins := Twins(false)[:4]
		twins = append(twins, Twins(false)[7], Twins(false)[10], Twins(false)[11]) // n.a, _id, _id+x
		backends := []string{drv.BBolt}
		if tier == "thorough" {
			backends = append(backends, drv.Badger)
		}
		cfg := &eng.QSConfig{Name: "default", Backends: backends, Docs: eng.DefaultDataset(), Twins: twins, Crits: crits, Shapes: shapes, Reads: true, Own: own("find", "derived")}
		eng.QuerySweep(cfg, run)
		sortOptionAliasing(run)
		run.Set("distinct_nontrivial", run.DistinctCount("results"))
		return "every sort option list (each of x, y, _id, n.a with directions -7,-1,0,1,5; every ordered pair of distinct fields with four direction pairs; Sort() without options; no sort) x skip,limit in {-1,0,1,2,size-1,size,size+1,MaxInt,MinInt}^2 (plus unset) x 5 criteria (none, ranges on the sort field, Or/NotExists) on twins without index and with indexes on x, y, x+y, n.a, over a 13-document collection with duplicate, missing, nil and mixed-type keys; oracle: the returned sort-key tuples equal the window [n,n+m) of the reference-sorted selection (absent = nil); unsorted: count min(m,max(0,total-n)), distinct, all matching; Count of the same query equals the number of documents returned; distinct = distinct result signatures"
	})
}
