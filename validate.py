#!/opt/veriftools/pyvenv/bin/python3
import json, jsonschema, sys, glob
jsonschema.validate(json.load(open('/verif/MANIFEST.json')), json.load(open('/root/.vp/MANIFEST.schema.json')))
print('manifest valid')
sch = json.load(open('/root/.vp/EVIDENCE.schema.json'))
for f in sorted(glob.glob('/verif/evidence/*.json')):
    try:
        jsonschema.validate(json.load(open(f)), sch); print('ok', f)
    except Exception as e:
        print('INVALID', f, str(e)[:300])
