#!/bin/bash
# Runs the repository's own suite with the verif build tag OFF and checks that every test of the pinned
# baseline (/root/.vp/BASELINE.json stable_pass) passes. Prints the number passing; exit 0 iff all 84 pass.
export GOFLAGS=-mod=mod GOPROXY=off GOSUMDB=off GOTOOLCHAIN=local
cd "${1:-/repo}" || exit 2
out=$(mktemp)
go test -json -vet=off -count=1 -timeout 25m ./... > "$out" 2>/dev/null
python3 - "$out" <<'PY'
import json,sys
base=json.load(open('/root/.vp/BASELINE.json'))['stable_pass']
res={}
for l in open(sys.argv[1]):
    try: e=json.loads(l)
    except Exception: continue
    if e.get('Test') and e.get('Action') in('pass','fail'):
        res[e['Package']+'::'+e['Test']]=e['Action']
missing=[t for t in base if res.get(t)!='pass']
print(f"baseline: {len(base)-len(missing)}/{len(base)} stable tests pass")
for t in missing: print("  NOT PASSING:",t,res.get(t))
sys.exit(1 if missing else 0)
PY
rc=$?
rm -f "$out"
exit $rc
