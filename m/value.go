// Package m is the reference model ("the oracle"): values, the total order, dotted paths, criteria,
// queries, collections. It is written from the property statements and imports nothing from clover.
package m

import (
	"encoding/base64"
	"fmt"
	"math"
	"math/big"
	"sort"
	"strconv"
	"strings"
	"time"
)

// Canonical value domain: nil, bool, int64, uint64, float64, string, time.Time,
// []interface{}, map[string]interface{}.

// FieldRef is a criteria operand that names another field of the document under test.
type FieldRef struct{ Name string }

// Rank of a value's type: nil < number < string < object < array < bool < time.
func Rank(v interface{}) int {
	switch v.(type) {
	case nil:
		return 0
	case int64, uint64, float64:
		return 1
	case string:
		return 2
	case map[string]interface{}:
		return 3
	case []interface{}:
		return 4
	case bool:
		return 5
	case time.Time:
		return 6
	}
	panic(fmt.Sprintf("m.Rank: value outside the canonical domain: %T", v))
}

func bigOf(v interface{}) *big.Float {
	f := new(big.Float).SetPrec(200)
	switch x := v.(type) {
	case int64:
		f.SetInt64(x)
	case uint64:
		f.SetUint64(x)
	case float64:
		f.SetFloat64(x)
	}
	return f
}

func sign(i int) int {
	if i < 0 {
		return -1
	}
	if i > 0 {
		return 1
	}
	return 0
}

// Compare is the reference total preorder on canonical values; result in {-1,0,1}.
func Compare(a, b interface{}) int {
	ra, rb := Rank(a), Rank(b)
	if ra != rb {
		return sign(ra - rb)
	}
	switch x := a.(type) {
	case nil:
		return 0
	case int64, uint64, float64:
		return bigOf(a).Cmp(bigOf(b))
	case string:
		return sign(strings.Compare(x, b.(string)))
	case bool:
		y := b.(bool)
		if x == y {
			return 0
		}
		if !x {
			return -1
		}
		return 1
	case time.Time:
		y := b.(time.Time)
		if x.Before(y) {
			return -1
		}
		if x.After(y) {
			return 1
		}
		return 0
	case []interface{}:
		y := b.([]interface{})
		for i := 0; i < len(x) && i < len(y); i++ {
			if c := Compare(x[i], y[i]); c != 0 {
				return c
			}
		}
		return sign(len(x) - len(y))
	case map[string]interface{}:
		y := b.(map[string]interface{})
		kx, ky := SortedKeys(x), SortedKeys(y)
		for i := 0; i < len(kx) && i < len(ky); i++ {
			if c := strings.Compare(kx[i], ky[i]); c != 0 {
				return sign(c)
			}
			if c := Compare(x[kx[i]], y[ky[i]]); c != 0 {
				return c
			}
		}
		return sign(len(kx) - len(ky))
	}
	panic("unreachable")
}

func SortedKeys(mm map[string]interface{}) []string {
	ks := make([]string, 0, len(mm))
	for k := range mm {
		ks = append(ks, k)
	}
	sort.Strings(ks)
	return ks
}

// Canon renders a value in a type-tagged canonical text form: two values have the same Canon iff they
// are deeply equal in Go type and value (times: same instant and same zone offset).
func Canon(v interface{}) string {
	var sb strings.Builder
	canon(&sb, v)
	return sb.String()
}

func canon(sb *strings.Builder, v interface{}) {
	switch x := v.(type) {
	case nil:
		sb.WriteString("nil")
	case bool:
		if x {
			sb.WriteString("true")
		} else {
			sb.WriteString("false")
		}
	case int64:
		sb.WriteString("i")
		sb.WriteString(strconv.FormatInt(x, 10))
	case uint64:
		sb.WriteString("u")
		sb.WriteString(strconv.FormatUint(x, 10))
	case float64:
		sb.WriteString("f")
		if x == 0 && math.Signbit(x) {
			sb.WriteString("-0")
		} else {
			sb.WriteString(strconv.FormatFloat(x, 'g', -1, 64))
		}
	case string:
		sb.WriteString(strconv.Quote(x))
	case time.Time:
		_, off := x.Zone()
		fmt.Fprintf(sb, "t%d.%09d%+d", x.Unix(), x.Nanosecond(), off)
	case []interface{}:
		sb.WriteByte('[')
		for i, e := range x {
			if i > 0 {
				sb.WriteByte(',')
			}
			canon(sb, e)
		}
		sb.WriteByte(']')
	case map[string]interface{}:
		sb.WriteByte('{')
		for i, k := range SortedKeys(x) {
			if i > 0 {
				sb.WriteByte(',')
			}
			sb.WriteString(strconv.Quote(k))
			sb.WriteByte(':')
			canon(sb, x[k])
		}
		sb.WriteByte('}')
	case FieldRef:
		sb.WriteString("Field(" + strconv.Quote(x.Name) + ")")
	case *FieldRef:
		sb.WriteString("Field(" + strconv.Quote(x.Name) + ")")
	default:
		// outside the canonical domain: render with the Go type so that it never equals a canonical value
		fmt.Fprintf(sb, "<%T:%v>", v, v)
	}
}

// Equal: deep equality in type and value.
func Equal(a, b interface{}) bool { return Canon(a) == Canon(b) }

// Clone deep-copies a canonical value.
func Clone(v interface{}) interface{} {
	switch x := v.(type) {
	case []interface{}:
		out := make([]interface{}, len(x))
		for i, e := range x {
			out[i] = Clone(e)
		}
		return out
	case map[string]interface{}:
		out := make(map[string]interface{}, len(x))
		for k, e := range x {
			out[k] = Clone(e)
		}
		return out
	}
	return v
}

// ---- tagged JSON form (replay files, evidence samples) ----

// ToJSON converts a canonical value to a JSON-marshallable, type-tagged form.
func ToJSON(v interface{}) interface{} {
	switch x := v.(type) {
	case nil:
		return nil
	case bool:
		return x
	case int64:
		return map[string]interface{}{"i64": strconv.FormatInt(x, 10)}
	case uint64:
		return map[string]interface{}{"u64": strconv.FormatUint(x, 10)}
	case float64:
		return map[string]interface{}{"f64": strconv.FormatFloat(x, 'g', -1, 64)}
	case string:
		return map[string]interface{}{"s": base64IfNeeded(x)}
	case time.Time:
		_, off := x.Zone()
		return map[string]interface{}{"time": x.Format(time.RFC3339Nano), "unix_ns": fmt.Sprintf("%d.%09d", x.Unix(), x.Nanosecond()), "off": off}
	case []interface{}:
		out := make([]interface{}, len(x))
		for i, e := range x {
			out[i] = ToJSON(e)
		}
		return map[string]interface{}{"arr": out}
	case map[string]interface{}:
		out := map[string]interface{}{}
		for k, e := range x {
			out[k] = ToJSON(e)
		}
		return map[string]interface{}{"obj": out}
	case FieldRef:
		return map[string]interface{}{"field": x.Name}
	}
	return map[string]interface{}{"go": fmt.Sprintf("%T:%v", v, v)}
}

func base64IfNeeded(s string) interface{} {
	for i := 0; i < len(s); i++ {
		if s[i] < 0x20 || s[i] >= 0x7f {
			return map[string]interface{}{"b64": base64.StdEncoding.EncodeToString([]byte(s))}
		}
	}
	return s
}

// FromJSON is the inverse of ToJSON on the output of encoding/json.Unmarshal into interface{}.
func FromJSON(j interface{}) (interface{}, error) {
	switch x := j.(type) {
	case nil:
		return nil, nil
	case bool:
		return x, nil
	case map[string]interface{}:
		for k, v := range x {
			switch k {
			case "i64":
				n, err := strconv.ParseInt(v.(string), 10, 64)
				return n, err
			case "u64":
				n, err := strconv.ParseUint(v.(string), 10, 64)
				return n, err
			case "f64":
				n, err := strconv.ParseFloat(v.(string), 64)
				return n, err
			case "s":
				if s, ok := v.(string); ok {
					return s, nil
				}
				b, err := base64.StdEncoding.DecodeString(v.(map[string]interface{})["b64"].(string))
				return string(b), err
			case "time", "unix_ns", "off":
				parts := strings.SplitN(x["unix_ns"].(string), ".", 2)
				sec, _ := strconv.ParseInt(parts[0], 10, 64)
				ns, _ := strconv.ParseInt(parts[1], 10, 64)
				off := int(x["off"].(float64))
				loc := time.UTC
				if off != 0 {
					loc = time.FixedZone("", off)
				}
				return time.Unix(sec, ns).In(loc), nil
			case "arr":
				arr := v.([]interface{})
				out := make([]interface{}, len(arr))
				for i, e := range arr {
					c, err := FromJSON(e)
					if err != nil {
						return nil, err
					}
					out[i] = c
				}
				return out, nil
			case "obj":
				out := map[string]interface{}{}
				for kk, e := range v.(map[string]interface{}) {
					c, err := FromJSON(e)
					if err != nil {
						return nil, err
					}
					out[kk] = c
				}
				return out, nil
			case "field":
				return FieldRef{Name: v.(string)}, nil
			}
		}
	}
	return nil, fmt.Errorf("m.FromJSON: unrecognised %v", j)
}

// Lookup resolves a dotted path. present is true iff every segment resolves (also when the value is nil).
func Lookup(doc map[string]interface{}, path string) (v interface{}, present bool) {
	segs := strings.Split(path, ".")
	cur := doc
	for i, s := range segs {
		if cur == nil {
			return nil, false
		}
		x, ok := cur[s]
		if !ok {
			return nil, false
		}
		if i == len(segs)-1 {
			return x, true
		}
		cur, _ = x.(map[string]interface{})
	}
	return nil, false
}

// SetPath assigns a dotted path, creating (or replacing non-map) intermediate objects.
func SetPath(doc map[string]interface{}, path string, v interface{}) {
	segs := strings.Split(path, ".")
	cur := doc
	for i, s := range segs {
		if i == len(segs)-1 {
			cur[s] = v
			return
		}
		next, ok := cur[s].(map[string]interface{})
		if !ok {
			next = map[string]interface{}{}
			cur[s] = next
		}
		cur = next
	}
}

// OrderCanon renders a value so that two values have the same text iff they compare equal under the reference
// order (numbers by numeric value whatever their Go type, times by instant).
func OrderCanon(v interface{}) string {
	var sb strings.Builder
	orderCanon(&sb, v)
	return sb.String()
}

func orderCanon(sb *strings.Builder, v interface{}) {
	switch x := v.(type) {
	case int64, uint64, float64:
		f := bigOf(v)
		if f.Sign() == 0 {
			sb.WriteString("n0")
		} else {
			sb.WriteString("n" + f.Text('g', 60))
		}
	case time.Time:
		fmt.Fprintf(sb, "t%d.%09d", x.Unix(), x.Nanosecond())
	case []interface{}:
		sb.WriteByte('[')
		for i, e := range x {
			if i > 0 {
				sb.WriteByte(',')
			}
			orderCanon(sb, e)
		}
		sb.WriteByte(']')
	case map[string]interface{}:
		sb.WriteByte('{')
		for i, k := range SortedKeys(x) {
			if i > 0 {
				sb.WriteByte(',')
			}
			sb.WriteString(strconv.Quote(k))
			sb.WriteByte(':')
			orderCanon(sb, x[k])
		}
		sb.WriteByte('}')
	default:
		canon(sb, v)
	}
}
