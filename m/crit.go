package m

import (
	"encoding/json"
	"fmt"
	"regexp"
	"sort"
	"strings"
)

// Crit is a criteria tree in data form.
// Leaf ops: eq neq gt gte lt lte in contains like exists notexists func. Connectives: and or not.
type Crit struct {
	Op    string
	Field string
	Val   interface{}   // operand for eq..lte; canonical value, FieldRef, or "$name" string
	Vals  []interface{} // operands for in / contains
	Pat   string        // like
	Fn    string        // func: name of a registered predicate
	Kind  string        // optional Go numeric kind the literal is supplied as (int, int8, ..., float32); "" = canonical
	L, R  *Crit
}

// Preds are the MatchFunc predicates available to alphabets (pure functions of the decoded document).
var Preds = map[string]func(doc map[string]interface{}) bool{
	"hasX":     func(d map[string]interface{}) bool { _, ok := d["x"]; return ok },
	"xIsInt64": func(d map[string]interface{}) bool { _, ok := d["x"].(int64); return ok },
	"never":    func(d map[string]interface{}) bool { return false },
}

func Leaf(op, field string, val interface{}) *Crit { return &Crit{Op: op, Field: field, Val: val} }
func In(field string, vals ...interface{}) *Crit {
	return &Crit{Op: "in", Field: field, Vals: append([]interface{}{}, vals...)}
}
func Contains(field string, vals ...interface{}) *Crit {
	return &Crit{Op: "contains", Field: field, Vals: append([]interface{}{}, vals...)}
}
func Like(field, pat string) *Crit { return &Crit{Op: "like", Field: field, Pat: pat} }
func Exists(field string) *Crit    { return &Crit{Op: "exists", Field: field} }
func NotExists(field string) *Crit { return &Crit{Op: "notexists", Field: field} }
func Func(name string) *Crit       { return &Crit{Op: "func", Fn: name} }
func And(a, b *Crit) *Crit         { return &Crit{Op: "and", L: a, R: b} }
func Or(a, b *Crit) *Crit          { return &Crit{Op: "or", L: a, R: b} }
func Not(a *Crit) *Crit            { return &Crit{Op: "not", L: a} }

// operand resolves a literal / field-reference operand against the document (absent -> nil).
func operand(doc map[string]interface{}, v interface{}) interface{} {
	switch x := v.(type) {
	case FieldRef:
		r, _ := Lookup(doc, x.Name)
		return r
	case string:
		if strings.HasPrefix(x, "$") {
			r, _ := Lookup(doc, strings.TrimLeft(x, "$"))
			return r
		}
	}
	return v
}

// Eval: does doc satisfy c, under the documented semantics.
func (c *Crit) Eval(doc map[string]interface{}) bool {
	if c == nil {
		return true
	}
	switch c.Op {
	case "and":
		return c.L.Eval(doc) && c.R.Eval(doc)
	case "or":
		return c.L.Eval(doc) || c.R.Eval(doc)
	case "not":
		return !c.L.Eval(doc)
	case "isnil", "istrue", "isfalse":
		v, p := Lookup(doc, c.Field)
		want := map[string]interface{}{"isnil": nil, "istrue": true, "isfalse": false}[c.Op]
		return p && Compare(v, want) == 0
	case "isnilornotexists":
		v, p := Lookup(doc, c.Field)
		return !p || v == nil
	case "exists":
		_, p := Lookup(doc, c.Field)
		return p
	case "notexists":
		_, p := Lookup(doc, c.Field)
		return !p
	case "eq", "neq":
		v, p := Lookup(doc, c.Field)
		eq := p && Compare(v, operand(doc, c.Val)) == 0
		if c.Op == "eq" {
			return eq
		}
		return !eq
	case "gt", "gte", "lt", "lte":
		v, _ := Lookup(doc, c.Field)
		r := Compare(v, operand(doc, c.Val))
		switch c.Op {
		case "gt":
			return r > 0
		case "gte":
			return r >= 0
		case "lt":
			return r < 0
		}
		return r <= 0
	case "in":
		v, _ := Lookup(doc, c.Field)
		for _, o := range c.Vals {
			if Compare(v, operand(doc, o)) == 0 {
				return true
			}
		}
		return false
	case "contains":
		v, _ := Lookup(doc, c.Field)
		arr, ok := v.([]interface{})
		if !ok {
			return false
		}
		for _, o := range c.Vals {
			want := operand(doc, o)
			found := false
			for _, e := range arr {
				if Compare(e, want) == 0 {
					found = true
					break
				}
			}
			if !found {
				return false
			}
		}
		return true
	case "like":
		v, _ := Lookup(doc, c.Field)
		s, ok := v.(string)
		if !ok {
			return false
		}
		re, err := regexp.Compile(c.Pat)
		return err == nil && re.MatchString(s)
	case "func":
		return Preds[c.Fn](doc)
	}
	panic("m.Eval: unknown op " + c.Op)
}

func (c *Crit) String() string {
	if c == nil {
		return "<none>"
	}
	k := ""
	if c.Kind != "" {
		k = "~" + c.Kind
	}
	switch c.Op {
	case "and", "or":
		return "(" + c.L.String() + " " + c.Op + " " + c.R.String() + ")"
	case "not":
		return "not(" + c.L.String() + ")"
	case "exists", "notexists", "isnil", "istrue", "isfalse", "isnilornotexists":
		return c.Op + "(" + c.Field + ")"
	case "in", "contains":
		parts := make([]string, len(c.Vals))
		for i, v := range c.Vals {
			parts[i] = Canon(v)
		}
		return c.Field + " " + c.Op + " (" + strings.Join(parts, ",") + ")" + k
	case "like":
		return c.Field + " like " + fmt.Sprintf("%q", c.Pat)
	case "func":
		return "func:" + c.Fn
	}
	return c.Field + " " + c.Op + " " + Canon(c.Val) + k
}

// HasOp reports whether the tree contains a node with the given op.
func (c *Crit) HasOp(op string) bool {
	if c == nil {
		return false
	}
	if c.Op == op {
		return true
	}
	return c.L.HasOp(op) || c.R.HasOp(op)
}

// Size = number of nodes.
func (c *Crit) Size() int {
	if c == nil {
		return 0
	}
	return 1 + c.L.Size() + c.R.Size()
}

func (c *Crit) MarshalJSON() ([]byte, error) {
	o := map[string]interface{}{"op": c.Op}
	if c.Field != "" {
		o["field"] = c.Field
	}
	switch c.Op {
	case "eq", "neq", "gt", "gte", "lt", "lte":
		o["val"] = ToJSON(c.Val)
	case "in", "contains":
		vs := make([]interface{}, len(c.Vals))
		for i, v := range c.Vals {
			vs[i] = ToJSON(v)
		}
		o["vals"] = vs
	case "like":
		o["pat"] = c.Pat
	case "func":
		o["fn"] = c.Fn
	}
	if c.Kind != "" {
		o["kind"] = c.Kind
	}
	if c.L != nil {
		o["l"] = c.L
	}
	if c.R != nil {
		o["r"] = c.R
	}
	return json.Marshal(o)
}

func (c *Crit) UnmarshalJSON(b []byte) error {
	var o map[string]json.RawMessage
	if err := json.Unmarshal(b, &o); err != nil {
		return err
	}
	str := func(k string) string {
		var s string
		if r, ok := o[k]; ok {
			json.Unmarshal(r, &s)
		}
		return s
	}
	c.Op, c.Field, c.Pat, c.Fn, c.Kind = str("op"), str("field"), str("pat"), str("fn"), str("kind")
	if r, ok := o["val"]; ok {
		var j interface{}
		json.Unmarshal(r, &j)
		v, err := FromJSON(j)
		if err != nil {
			return err
		}
		c.Val = v
	}
	if r, ok := o["vals"]; ok {
		var js []interface{}
		json.Unmarshal(r, &js)
		c.Vals = []interface{}{}
		for _, j := range js {
			v, err := FromJSON(j)
			if err != nil {
				return err
			}
			c.Vals = append(c.Vals, v)
		}
	}
	if r, ok := o["l"]; ok {
		c.L = &Crit{}
		if err := json.Unmarshal(r, c.L); err != nil {
			return err
		}
	}
	if r, ok := o["r"]; ok {
		c.R = &Crit{}
		if err := json.Unmarshal(r, c.R); err != nil {
			return err
		}
	}
	return nil
}

// ---- queries ----

type SortOpt struct {
	Field string `json:"field"`
	Dir   int    `json:"dir"`
}

// Q is a query in data form. Skip/Limit are applied through the builder only when the *Set flag is on.
type Q struct {
	Coll     string    `json:"coll"`
	Crit     *Crit     `json:"crit,omitempty"`
	Sort     []SortOpt `json:"sort,omitempty"`         // nil = no Sort call
	SortDef  bool      `json:"sort_default,omitempty"` // Sort() with no options
	SkipSet  bool      `json:"skip_set,omitempty"`
	Skip     int       `json:"skip,omitempty"`
	LimitSet bool      `json:"limit_set,omitempty"`
	Limit    int       `json:"limit,omitempty"`
}

func (q *Q) String() string {
	s := q.Coll + " where " + q.Crit.String()
	if q.SortDef {
		s += " sort()"
	}
	if len(q.Sort) > 0 {
		s += fmt.Sprintf(" sort%v", q.Sort)
	}
	if q.SkipSet {
		s += fmt.Sprintf(" skip %d", q.Skip)
	}
	if q.LimitSet {
		s += fmt.Sprintf(" limit %d", q.Limit)
	}
	return s
}

// EffSort: the effective sort key list (Sort() without options orders by _id).
func (q *Q) EffSort() []SortOpt {
	if q.SortDef {
		return []SortOpt{{Field: "_id", Dir: 1}}
	}
	return q.Sort
}

// EffSkip / EffLimit: a negative skip is ignored, a negative (or unset) limit means unlimited (-1).
func (q *Q) EffSkip() int {
	if q.SkipSet && q.Skip > 0 {
		return q.Skip
	}
	return 0
}
func (q *Q) EffLimit() int {
	if q.LimitSet && q.Limit >= 0 {
		return q.Limit
	}
	return -1
}

// SortKey returns the tuple of sort-key values of a document (absent == nil).
func SortKey(doc map[string]interface{}, opts []SortOpt) []interface{} {
	out := make([]interface{}, len(opts))
	for i, o := range opts {
		out[i], _ = Lookup(doc, o.Field)
	}
	return out
}

func CompareKeys(a, b []interface{}, opts []SortOpt) int {
	for i, o := range opts {
		c := Compare(a[i], b[i])
		if c != 0 {
			if o.Dir < 0 {
				return -c
			}
			return c
		}
	}
	return 0
}

// Window applies skip/limit to a length: returns [lo, hi).
func Window(total, skip, limit int) (int, int) {
	lo := skip
	if lo > total {
		lo = total
	}
	hi := total
	if limit >= 0 && limit < hi-lo { // (written so that a limit near MaxInt cannot overflow)
		hi = lo + limit
	}
	return lo, hi
}

// Select returns the ids (sorted) of the documents of docs satisfying q's criteria.
func (q *Q) Select(docs map[string]map[string]interface{}) []string {
	ids := []string{}
	for id, d := range docs {
		if q.Crit.Eval(d) {
			ids = append(ids, id)
		}
	}
	sort.Strings(ids)
	return ids
}

// ExpectedKeys: with a sort, the exact sequence of sort-key tuples the query must return.
func (q *Q) ExpectedKeys(docs map[string]map[string]interface{}) [][]interface{} {
	opts := q.EffSort()
	sel := q.Select(docs)
	keys := make([][]interface{}, len(sel))
	for i, id := range sel {
		keys[i] = SortKey(docs[id], opts)
	}
	sort.SliceStable(keys, func(i, j int) bool { return CompareKeys(keys[i], keys[j], opts) < 0 })
	lo, hi := Window(len(keys), q.EffSkip(), q.EffLimit())
	return keys[lo:hi]
}

func typeTag(v interface{}) string {
	switch x := v.(type) {
	case FieldRef:
		return "Field"
	case string:
		if strings.HasPrefix(x, "$") {
			return "$field"
		}
		return "str"
	case nil:
		return "nil"
	case int64, uint64, float64:
		return "num"
	case bool:
		return "bool"
	case []interface{}:
		return "arr"
	case map[string]interface{}:
		return "obj"
	}
	return "time"
}

// Skel is the criteria's shape: operators and fields, operands reduced to their type.
func (c *Crit) Skel() string {
	if c == nil {
		return "<none>"
	}
	switch c.Op {
	case "and", "or":
		return "(" + c.L.Skel() + " " + c.Op + " " + c.R.Skel() + ")"
	case "not":
		return "not(" + c.L.Skel() + ")"
	case "exists", "notexists", "like", "isnil", "istrue", "isfalse", "isnilornotexists":
		return c.Op + "(" + c.Field + ")"
	case "in", "contains":
		parts := make([]string, len(c.Vals))
		for i, v := range c.Vals {
			parts[i] = typeTag(v)
		}
		return c.Field + " " + c.Op + "(" + strings.Join(parts, ",") + ")"
	case "func":
		return "func"
	}
	return c.Field + " " + c.Op + " " + typeTag(c.Val)
}

// ShapeClass is a coarse description of the sort/window part.
func (q *Q) ShapeClass() string {
	s := ""
	for _, o := range q.EffSort() {
		d := "+"
		if o.Dir < 0 {
			d = "-"
		}
		s += "sort" + d + o.Field + " "
	}
	if q.EffSkip() > 0 {
		s += "skip "
	}
	if q.EffLimit() >= 0 {
		s += "limit"
	}
	return strings.TrimSpace(s)
}
