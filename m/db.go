package m

import (
	"encoding/json"
	"fmt"
	"regexp"
	"sort"
	"strings"
	"time"
)

type Doc = map[string]interface{}

type Coll struct {
	Docs    map[string]Doc
	Indexes map[string]bool
}

type DB struct {
	Colls map[string]*Coll
}

func NewDB() *DB { return &DB{Colls: map[string]*Coll{}} }

func (db *DB) Clone() *DB {
	out := NewDB()
	for n, c := range db.Colls {
		nc := &Coll{Docs: map[string]Doc{}, Indexes: map[string]bool{}}
		for id, d := range c.Docs {
			nc.Docs[id] = Clone(d).(Doc)
		}
		for f := range c.Indexes {
			nc.Indexes[f] = true
		}
		out.Colls[n] = nc
	}
	return out
}

// Key is a canonical text form of the logical state.
func (db *DB) Key() string {
	var sb strings.Builder
	names := make([]string, 0, len(db.Colls))
	for n := range db.Colls {
		names = append(names, n)
	}
	sort.Strings(names)
	for _, n := range names {
		c := db.Colls[n]
		fmt.Fprintf(&sb, "coll %q idx[", n)
		fs := make([]string, 0)
		for f := range c.Indexes {
			fs = append(fs, f)
		}
		sort.Strings(fs)
		sb.WriteString(strings.Join(fs, ","))
		sb.WriteString("] docs[")
		ids := make([]string, 0)
		for id := range c.Docs {
			ids = append(ids, id)
		}
		sort.Strings(ids)
		for _, id := range ids {
			sb.WriteString(Canon(c.Docs[id]))
			sb.WriteString(";")
		}
		sb.WriteString("]\n")
	}
	return sb.String()
}

func (db *DB) CollNames() []string {
	names := make([]string, 0, len(db.Colls))
	for n := range db.Colls {
		names = append(names, n)
	}
	sort.Strings(names)
	return names
}

func (c *Coll) IndexNames() []string {
	fs := make([]string, 0)
	for f := range c.Indexes {
		fs = append(fs, f)
	}
	sort.Strings(fs)
	return fs
}

func (c *Coll) IDs() []string {
	ids := make([]string, 0, len(c.Docs))
	for id := range c.Docs {
		ids = append(ids, id)
	}
	sort.Strings(ids)
	return ids
}

// ---- operations ----

// Updater describes an update function in data form.
type Updater struct {
	Set   map[string]interface{} `json:"-"`
	Style string                 `json:"style"`         // "copy": copy then set; "inplace": mutate the received document and return it; "inplace-elems": additionally rewrite slices/objects it holds element by element
	Nil   bool                   `json:"nil,omitempty"` // return nil (remove the document; UpdateFunc only)
	// BadFor: for the document with this _id the updater produces an invalid document (_expiresAt that is not a
	// time); every other document gets the normal update. The whole operation must then fail without any effect.
	BadFor string `json:"bad_for,omitempty"`
}

type Op struct {
	K       string // kind, see Apply
	Coll    string
	Docs    []Doc // insert / save / replaceById (Docs[0])
	Id      string
	Q       *Q
	Set     map[string]interface{} // update(q, map)
	Upd     *Updater
	Field   string
	Stop    int    // forEach: consumer returns false at its Stop-th call (0 = never)
	Text    string // import: file content; "" with Missing = no such file
	Missing bool
}

func (o Op) String() string {
	b, _ := json.Marshal(o)
	return string(b)
}

func docsToJSON(ds []Doc) []interface{} {
	out := make([]interface{}, len(ds))
	for i, d := range ds {
		out[i] = ToJSON(d)
	}
	return out
}

func (o Op) MarshalJSON() ([]byte, error) {
	j := map[string]interface{}{"k": o.K}
	if o.Coll != "" {
		j["coll"] = o.Coll
	}
	if o.Docs != nil {
		j["docs"] = docsToJSON(o.Docs)
	}
	if o.Id != "" {
		j["id"] = o.Id
	}
	if o.Q != nil {
		j["q"] = o.Q
	}
	if o.Set != nil {
		j["set"] = ToJSON(map[string]interface{}(o.Set))
	}
	if o.Upd != nil {
		j["upd"] = map[string]interface{}{"set": ToJSON(map[string]interface{}(o.Upd.Set)), "style": o.Upd.Style, "nil": o.Upd.Nil, "bad_for": o.Upd.BadFor}
	}
	if o.Field != "" {
		j["field"] = o.Field
	}
	if o.Stop != 0 {
		j["stop"] = o.Stop
	}
	if o.Text != "" {
		j["text"] = o.Text
	}
	if o.Missing {
		j["missing"] = true
	}
	return json.Marshal(j)
}

func (o *Op) UnmarshalJSON(b []byte) error {
	var j struct {
		K, Coll, Id, Field, Text string
		Docs                     []interface{}
		Q                        *Q
		Set                      interface{}
		Upd                      *struct {
			Set    interface{}
			Style  string
			Nil    bool
			BadFor string `json:"bad_for"`
		}
		Stop    int
		Missing bool
	}
	if err := json.Unmarshal(b, &j); err != nil {
		return err
	}
	o.K, o.Coll, o.Id, o.Field, o.Text, o.Q, o.Stop, o.Missing = j.K, j.Coll, j.Id, j.Field, j.Text, j.Q, j.Stop, j.Missing
	if j.Docs != nil {
		o.Docs = []Doc{}
		for _, d := range j.Docs {
			v, err := FromJSON(d)
			if err != nil {
				return err
			}
			o.Docs = append(o.Docs, v.(map[string]interface{}))
		}
	}
	if j.Set != nil {
		v, err := FromJSON(j.Set)
		if err != nil {
			return err
		}
		o.Set = v.(map[string]interface{})
	}
	if j.Upd != nil {
		o.Upd = &Updater{Style: j.Upd.Style, Nil: j.Upd.Nil, BadFor: j.Upd.BadFor}
		if j.Upd.Set != nil {
			v, err := FromJSON(j.Upd.Set)
			if err != nil {
				return err
			}
			o.Upd.Set = v.(map[string]interface{})
		}
	}
	return nil
}

// Error classes.
const (
	OK             = ""
	ECollExist     = "ErrCollectionExist"
	ECollNotExist  = "ErrCollectionNotExist"
	EIndexExist    = "ErrIndexExist"
	EIndexNotExist = "ErrIndexNotExist"
	EDocNotExist   = "ErrDocumentNotExist"
	EDupKey        = "ErrDuplicateKey"
	EAny           = "error" // some error, sentinel unspecified
)

// Outcome: one acceptable result of an operation.
type Outcome struct {
	Err   string // error class
	State *DB    // post-state (== pre-state object when unchanged)
	Note  string
}

var uuidRe = regexp.MustCompile(`^[0-9a-fA-F]{8}-[0-9a-fA-F]{4}-[0-9a-fA-F]{4}-[0-9a-fA-F]{4}-[0-9a-fA-F]{12}$`)

// ValidID: canonical 36-character UUID.
func ValidID(s string) bool { return uuidRe.MatchString(s) }

// docProblem classifies what is wrong with a document about to be stored ("" = fine).
func docInvalid(d Doc) bool {
	id, ok := d["_id"].(string)
	if !ok || !ValidID(id) {
		return true
	}
	if v, has := d["_expiresAt"]; has {
		if _, isT := v.(time.Time); !isT {
			return true
		}
	}
	return false
}

// ApplyUpdater computes the updater's result on a document (nil = remove).
func ApplyUpdater(u *Updater, d Doc) Doc {
	if u.Nil {
		return nil
	}
	nd := Clone(d).(Doc)
	for k, v := range u.Set {
		SetPath(nd, k, Clone(v))
	}
	if id, _ := d["_id"].(string); u.BadFor != "" && id == u.BadFor {
		nd["_expiresAt"] = "not a time"
	}
	return nd
}

// Obs is what the driver observed and the model cannot predict: generated ids and, for windowed bulk
// writes, which documents the implementation chose among equally valid ones.
type Obs struct {
	GenIDs   []string // ids found on the inserted documents after Insert/Save, in order
	Affected []string // ids the bulk write touched (callback log, or pre/post diff)
}

// Apply returns every acceptable outcome of a write/catalog operation on db (which is not modified).
// Reads are checked separately (Check* functions).
func (db *DB) Apply(o Op, obs *Obs) ([]Outcome, error) {
	same := func(classes ...string) []Outcome {
		out := []Outcome{}
		for _, c := range classes {
			out = append(out, Outcome{Err: c, State: db})
		}
		return out
	}
	coll := db.Colls[o.Coll]
	switch o.K {
	case "createColl":
		if coll != nil {
			return same(ECollExist), nil
		}
		n := db.Clone()
		n.Colls[o.Coll] = &Coll{Docs: map[string]Doc{}, Indexes: map[string]bool{}}
		return []Outcome{{State: n}}, nil
	case "dropColl":
		if coll == nil {
			return same(ECollNotExist), nil
		}
		n := db.Clone()
		delete(n.Colls, o.Coll)
		return []Outcome{{State: n}}, nil
	case "createIndex":
		if coll == nil {
			return same(ECollNotExist), nil
		}
		if coll.Indexes[o.Field] {
			return same(EIndexExist), nil
		}
		n := db.Clone()
		n.Colls[o.Coll].Indexes[o.Field] = true
		return []Outcome{{State: n}}, nil
	case "dropIndex":
		if coll == nil {
			return same(ECollNotExist), nil
		}
		if !coll.Indexes[o.Field] {
			return same(EIndexNotExist), nil
		}
		n := db.Clone()
		delete(n.Colls[o.Coll].Indexes, o.Field)
		return []Outcome{{State: n}}, nil
	case "import":
		// o.Docs: the documents the file holds after JSON typing; o.Missing: unreadable / ill-formed file
		if o.Missing {
			if coll != nil {
				return same(EAny, ECollExist), nil
			}
			return same(EAny), nil
		}
		if coll != nil {
			return same(ECollExist), nil
		}
		n := db.Clone()
		n.Colls[o.Coll] = &Coll{Docs: map[string]Doc{}, Indexes: map[string]bool{}}
		outs, err := n.applyInsert(Op{K: "insert", Coll: o.Coll, Docs: o.Docs}, obs, false)
		if err != nil {
			return nil, err
		}
		for i := range outs {
			if outs[i].Err != OK {
				outs[i].State = db // a failed import leaves nothing behind
			}
		}
		return outs, nil
	case "createByQuery":
		src := db.Colls[o.Q.Coll]
		classes := []string{}
		if coll != nil {
			classes = append(classes, ECollExist)
		}
		if src == nil {
			classes = append(classes, ECollNotExist)
		}
		if len(classes) > 0 {
			return same(classes...), nil
		}
		n := db.Clone()
		nc := &Coll{Docs: map[string]Doc{}, Indexes: map[string]bool{}}
		for _, id := range o.Q.Select(src.Docs) {
			nc.Docs[id] = Clone(src.Docs[id]).(Doc)
		}
		n.Colls[o.Coll] = nc
		return []Outcome{{State: n}}, nil
	case "insertTwice":
		// one document object listed twice: the second occurrence carries the id of the first (given or generated),
		// so the batch is refused as a whole
		if coll == nil {
			return same(ECollNotExist), nil
		}
		return same(EDupKey, EAny), nil
	case "insert", "insertOne":
		return db.applyInsert(o, obs, false)
	case "save", "saveStruct":
		d := o.Docs[0]
		idv, has := d["_id"]
		if !has || idv == "" {
			return db.applyInsert(o, obs, false)
		}
		id, _ := idv.(string)
		outs, err := db.applyReplace(o.Coll, id, d)
		if err != nil {
			return nil, err
		}
		// A save of a valid document under an id that is not stored: the statements leave open whether it
		// is inserted or refused.
		if coll != nil && !docInvalid(d) && coll.Docs[id] == nil {
			n := db.Clone()
			n.Colls[o.Coll].Docs[id] = Clone(d).(Doc)
			outs = append(outs, Outcome{State: n, Note: "save inserted a new id"})
		}
		return outs, nil
	case "replaceById":
		return db.applyReplace(o.Coll, o.Id, o.Docs[0])
	case "updateById":
		if coll == nil {
			return same(ECollNotExist), nil
		}
		old := coll.Docs[o.Id]
		if old == nil {
			return same(EDocNotExist), nil
		}
		nd := ApplyUpdater(o.Upd, old)
		outs, err := db.storeUpdated(o.Coll, map[string]Doc{o.Id: nd})
		if o.Upd.Nil {
			// an update function that returns no document: removing the document (as UpdateFunc does) or refusing
			// with an error are both acceptable; the statement only rules out a panic
			outs = append(outs, same(EAny)...)
		}
		return outs, err
	case "deleteById":
		if coll == nil {
			return same(ECollNotExist), nil
		}
		if coll.Docs[o.Id] == nil {
			return same(OK, EAny), nil
		}
		n := db.Clone()
		delete(n.Colls[o.Coll].Docs, o.Id)
		return []Outcome{{State: n}}, nil
	case "update", "updateFunc", "delete":
		c := db.Colls[o.Q.Coll]
		if c == nil {
			return same(ECollNotExist), nil
		}
		aff, err := db.affected(o.Q, obs)
		if err != nil {
			return nil, err
		}
		upd := o.Upd
		if o.K == "update" {
			upd = &Updater{Set: o.Set, Style: "copy"}
		}
		if o.K == "delete" {
			upd = &Updater{Nil: true}
		}
		repl := map[string]Doc{}
		for _, id := range aff {
			repl[id] = ApplyUpdater(upd, c.Docs[id])
		}
		return db.storeUpdated(o.Q.Coll, repl)
	}
	return nil, fmt.Errorf("m.Apply: unknown op kind %q", o.K)
}

// storeUpdated: outcomes of rewriting documents id -> new value (nil = removed).
func (db *DB) storeUpdated(coll string, repl map[string]Doc) ([]Outcome, error) {
	invalid, idChanged := false, false
	for id, nd := range repl {
		if nd == nil {
			continue
		}
		if nid, _ := nd["_id"].(string); nid != id || func() bool { _, isStr := nd["_id"].(string); return !isStr }() {
			idChanged = true
			continue
		}
		if docInvalid(nd) {
			invalid = true
		}
	}
	if invalid {
		return []Outcome{{Err: EAny, State: db}}, nil
	}
	n := db.Clone()
	for id, nd := range repl {
		if nd == nil {
			delete(n.Colls[coll].Docs, id)
		} else {
			keep := Clone(nd).(Doc)
			keep["_id"] = id // when the updater rewrote _id, the only acceptable success keeps the key's id
			n.Colls[coll].Docs[id] = keep
		}
	}
	if idChanged {
		// either refused with no change, or applied with _id kept
		if docsInvalidAfterKeep(n.Colls[coll], repl) {
			return []Outcome{{Err: EAny, State: db}}, nil
		}
		return []Outcome{{Err: EAny, State: db, Note: "_id rewrite refused"}, {State: n, Note: "_id rewrite ignored"}}, nil
	}
	return []Outcome{{State: n}}, nil
}

func docsInvalidAfterKeep(c *Coll, repl map[string]Doc) bool {
	for id, nd := range repl {
		if nd != nil && docInvalid(c.Docs[id]) {
			return true
		}
	}
	return false
}

func (db *DB) applyReplace(collName, id string, d Doc) ([]Outcome, error) {
	classes := []string{}
	coll := db.Colls[collName]
	did, isStr := d["_id"].(string)
	if !isStr || did != id {
		classes = append(classes, EAny)
	}
	if coll == nil {
		classes = append(classes, ECollNotExist)
	} else if coll.Docs[id] == nil {
		classes = append(classes, EDocNotExist)
	}
	if len(classes) == 0 && docInvalid(d) {
		classes = append(classes, EAny)
	}
	if len(classes) > 0 {
		out := []Outcome{}
		for _, c := range classes {
			out = append(out, Outcome{Err: c, State: db})
		}
		return out, nil
	}
	n := db.Clone()
	n.Colls[collName].Docs[id] = Clone(d).(Doc)
	return []Outcome{{State: n}}, nil
}

func (db *DB) applyInsert(o Op, obs *Obs, _ bool) ([]Outcome, error) {
	coll := db.Colls[o.Coll]
	if coll == nil {
		return []Outcome{{Err: ECollNotExist, State: db}}, nil
	}
	classes := map[string]bool{}
	emptyID := false
	seen := map[string]bool{}
	n := db.Clone()
	gi := 0
	for _, d := range o.Docs {
		idv, has := d["_id"]
		nd := Clone(d).(Doc)
		if !has || idv == "" {
			if idv == "" && has {
				emptyID = true
			}
			// generated id: taken from the observation
			if obs == nil || gi >= len(obs.GenIDs) {
				return nil, fmt.Errorf("insert without _id needs observed generated ids")
			}
			g := obs.GenIDs[gi]
			gi++
			if !ValidID(g) {
				return nil, fmt.Errorf("generated _id %q is not a canonical UUID", g)
			}
			nd["_id"] = g
		}
		if docInvalid(nd) {
			classes[EAny] = true
			continue
		}
		id := nd["_id"].(string)
		if coll.Docs[id] != nil || seen[id] {
			if !has || idv == "" {
				return nil, fmt.Errorf("generated _id %q is not fresh", id)
			}
			classes[EDupKey] = true
			continue
		}
		seen[id] = true
		n.Colls[o.Coll].Docs[id] = nd
	}
	if len(classes) > 0 {
		out := []Outcome{}
		for c := range classes {
			out = append(out, Outcome{Err: c, State: db})
		}
		return out, nil
	}
	outs := []Outcome{{State: n}}
	if emptyID {
		outs = append(outs, Outcome{Err: EAny, State: db, Note: "empty _id refused"})
	}
	return outs, nil
}

// affected determines which documents a bulk write must touch. Without a window it is the selection; with
// a window the implementation may choose among ties / unordered candidates, so its observed choice is
// validated instead: right size, inside the selection, and (sorted) the right multiset of sort keys.
func (db *DB) affected(q *Q, obs *Obs) ([]string, error) {
	c := db.Colls[q.Coll]
	sel := q.Select(c.Docs)
	skip, limit := q.EffSkip(), q.EffLimit()
	if skip == 0 && limit < 0 {
		return sel, nil
	}
	lo, hi := Window(len(sel), skip, limit)
	if obs == nil {
		return nil, fmt.Errorf("windowed bulk write needs the observed affected set")
	}
	aff := append([]string{}, obs.Affected...)
	sort.Strings(aff)
	if len(aff) != hi-lo {
		return nil, fmt.Errorf("windowed bulk write touched %d documents %v, expected %d (selection %d, skip %d, limit %d)", len(aff), aff, hi-lo, len(sel), skip, limit)
	}
	inSel := map[string]bool{}
	for _, id := range sel {
		inSel[id] = true
	}
	for i, id := range aff {
		if !inSel[id] {
			return nil, fmt.Errorf("bulk write touched %s which does not satisfy the criteria", id)
		}
		if i > 0 && aff[i-1] == id {
			return nil, fmt.Errorf("bulk write touched %s twice", id)
		}
	}
	if opts := q.EffSort(); len(opts) > 0 {
		want := q.ExpectedKeys(c.Docs)
		got := make([][]interface{}, len(aff))
		for i, id := range aff {
			got[i] = SortKey(c.Docs[id], opts)
		}
		sort.SliceStable(got, func(i, j int) bool { return CompareKeys(got[i], got[j], opts) < 0 })
		for i := range want {
			if CompareKeys(want[i], got[i], opts) != 0 {
				return nil, fmt.Errorf("sorted windowed bulk write touched sort keys %s, expected %s", Canon(keysAsVal(got)), Canon(keysAsVal(want)))
			}
		}
	}
	return aff, nil
}

func keysAsVal(ks [][]interface{}) interface{} {
	out := make([]interface{}, len(ks))
	for i, k := range ks {
		out[i] = k
	}
	return out
}

// CheckFind validates the result of FindAll(q) (documents as decoded maps, in the returned order).
func (db *DB) CheckFind(q *Q, got []Doc) error {
	c := db.Colls[q.Coll]
	if c == nil {
		return fmt.Errorf("model has no collection %q", q.Coll)
	}
	sel := q.Select(c.Docs)
	inSel := map[string]bool{}
	for _, id := range sel {
		inSel[id] = true
	}
	seen := map[string]bool{}
	for _, d := range got {
		id, _ := d["_id"].(string)
		md := c.Docs[id]
		if md == nil {
			return fmt.Errorf("returned document %s is not a live document of %q", Canon(d), q.Coll)
		}
		if !Equal(md, d) {
			return fmt.Errorf("returned document %s differs from the value last written %s", Canon(d), Canon(md))
		}
		if !inSel[id] {
			return fmt.Errorf("returned document %s does not satisfy the criteria", Canon(d))
		}
		if seen[id] {
			return fmt.Errorf("document %s returned twice", id)
		}
		seen[id] = true
	}
	opts := q.EffSort()
	skip, limit := q.EffSkip(), q.EffLimit()
	if len(opts) > 0 {
		want := q.ExpectedKeys(c.Docs)
		if len(want) != len(got) {
			return fmt.Errorf("returned %d documents, expected %d (selection %d, skip %d, limit %d)", len(got), len(want), len(sel), skip, limit)
		}
		for i := range want {
			k := SortKey(got[i], opts)
			if CompareKeys(k, want[i], opts) != 0 {
				return fmt.Errorf("position %d has sort key %s, expected %s", i, Canon(k), Canon(want[i]))
			}
		}
		return nil
	}
	lo, hi := Window(len(sel), skip, limit)
	if len(got) != hi-lo {
		missing := []string{}
		for _, id := range sel {
			if !seen[id] {
				missing = append(missing, Canon(c.Docs[id]))
			}
		}
		return fmt.Errorf("returned %d documents, expected %d (selection %d, skip %d, limit %d); not returned: %v", len(got), hi-lo, len(sel), skip, limit, missing)
	}
	return nil
}

// Affected exposes the set of documents a bulk write must touch (see affected).
func (db *DB) Affected(q *Q, obs *Obs) ([]string, error) { return db.affected(q, obs) }
