// Package drv drives the real clover implementation: converts model-form criteria/queries/documents to clover
// objects, opens instrumented instances of each backend, executes operations and audits states.
package drv

import (
	"errors"
	"fmt"

	clover "github.com/ostafen/clover/v2"
	"github.com/ostafen/clover/v2/document"
	"github.com/ostafen/clover/v2/query"
	"verif/m"
)

// AsKind converts a canonical number to the Go numeric kind named (used to supply the same literal in every
// Go numeric type); values that do not fit are returned unchanged.
func AsKind(v interface{}, kind string) interface{} {
	if kind == "" {
		return v
	}
	var f float64
	var i int64
	isInt := false
	switch x := v.(type) {
	case int64:
		i, f, isInt = x, float64(x), true
	case uint64:
		if x > 1<<62 {
			return v
		}
		i, f, isInt = int64(x), float64(x), true
	case float64:
		f = x
		if x == float64(int64(x)) {
			i, isInt = int64(x), true
		}
	case []interface{}:
		out := make([]interface{}, len(x))
		for k, e := range x {
			out[k] = AsKind(e, kind)
		}
		return out
	default:
		return v
	}
	switch kind {
	case "float64":
		return f
	case "float32":
		if float64(float32(f)) == f {
			return float32(f)
		}
		return v
	}
	if !isInt {
		return v
	}
	switch kind {
	case "int":
		return int(i)
	case "int8":
		if i >= -128 && i <= 127 {
			return int8(i)
		}
	case "int16":
		if i >= -32768 && i <= 32767 {
			return int16(i)
		}
	case "int32":
		if i >= -1<<31 && i < 1<<31 {
			return int32(i)
		}
	case "int64":
		return i
	case "uint":
		if i >= 0 {
			return uint(i)
		}
	case "uint8":
		if i >= 0 && i <= 255 {
			return uint8(i)
		}
	case "uint16":
		if i >= 0 && i <= 65535 {
			return uint16(i)
		}
	case "uint32":
		if i >= 0 && i < 1<<32 {
			return uint32(i)
		}
	case "uint64":
		if i >= 0 {
			return uint64(i)
		}
	}
	return v
}

var NumericKinds = []string{"int", "int8", "int16", "int32", "int64", "uint", "uint8", "uint16", "uint32", "uint64", "float32", "float64"}

func operand(v interface{}, kind string) interface{} {
	if fr, ok := v.(m.FieldRef); ok {
		return query.Field(fr.Name)
	}
	return AsKind(m.Clone(v), kind)
}

func operands(vs []interface{}, kind string) []interface{} {
	out := make([]interface{}, len(vs))
	for i, v := range vs {
		out[i] = operand(v, kind)
	}
	return out
}

// Criteria converts a model criteria tree into a clover criteria built with the public builder API.
func Criteria(c *m.Crit) query.Criteria {
	if c == nil {
		return nil
	}
	f := query.Field(c.Field)
	switch c.Op {
	case "and":
		return Criteria(c.L).And(Criteria(c.R))
	case "or":
		return Criteria(c.L).Or(Criteria(c.R))
	case "not":
		return Criteria(c.L).Not()
	case "eq":
		return f.Eq(operand(c.Val, c.Kind))
	case "neq":
		return f.Neq(operand(c.Val, c.Kind))
	case "gt":
		return f.Gt(operand(c.Val, c.Kind))
	case "gte":
		return f.GtEq(operand(c.Val, c.Kind))
	case "lt":
		return f.Lt(operand(c.Val, c.Kind))
	case "lte":
		return f.LtEq(operand(c.Val, c.Kind))
	case "in":
		return f.In(operands(c.Vals, c.Kind)...)
	case "contains":
		return f.Contains(operands(c.Vals, c.Kind)...)
	case "like":
		return f.Like(c.Pat)
	case "isnil":
		return f.IsNil()
	case "istrue":
		return f.IsTrue()
	case "isfalse":
		return f.IsFalse()
	case "isnilornotexists":
		return f.IsNilOrNotExists()
	case "exists":
		return f.Exists()
	case "notexists":
		return f.NotExists()
	case "func":
		p := m.Preds[c.Fn]
		return query.NewQuery("").MatchFunc(func(d *document.Document) bool { return p(DocMap(d)) }).Criteria()
	}
	panic("drv.Criteria: unknown op " + c.Op)
}

// Query converts a model query to a clover query using the builder methods.
func Query(q *m.Q) *query.Query {
	cq := query.NewQuery(q.Coll)
	if q.Crit != nil {
		cq = cq.Where(Criteria(q.Crit))
	}
	if q.SortDef {
		cq = cq.Sort()
	} else if len(q.Sort) > 0 {
		opts := make([]query.SortOption, len(q.Sort))
		for i, o := range q.Sort {
			opts[i] = query.SortOption{Field: o.Field, Direction: o.Dir}
		}
		cq = cq.Sort(opts...)
	}
	if q.SkipSet {
		cq = cq.Skip(q.Skip)
	}
	if q.LimitSet {
		cq = cq.Limit(q.Limit)
	}
	return cq
}

// Doc builds a clover document from a model document.
func Doc(d m.Doc) *document.Document {
	return document.NewDocumentOf(m.Clone(d))
}

// DocMap returns the field map of a clover document (nil-safe).
func DocMap(d *document.Document) m.Doc {
	if d == nil {
		return nil
	}
	return d.ToMap()
}

func DocMaps(ds []*document.Document) []m.Doc {
	out := make([]m.Doc, len(ds))
	for i, d := range ds {
		out[i] = DocMap(d)
	}
	return out
}

// ErrClass maps an error to the model's error classes.
func ErrClass(err error) string {
	switch {
	case err == nil:
		return m.OK
	case errors.Is(err, clover.ErrCollectionExist):
		return m.ECollExist
	case errors.Is(err, clover.ErrCollectionNotExist):
		return m.ECollNotExist
	case errors.Is(err, clover.ErrIndexExist):
		return m.EIndexExist
	case errors.Is(err, clover.ErrIndexNotExist):
		return m.EIndexNotExist
	case errors.Is(err, clover.ErrDocumentNotExist):
		return m.EDocNotExist
	case errors.Is(err, clover.ErrDuplicateKey):
		return m.EDupKey
	}
	return m.EAny
}

// ClassMatches: does the actual class satisfy the expected one (EAny accepts every error).
func ClassMatches(expected, actual string) bool {
	if expected == m.EAny {
		return actual != m.OK
	}
	return expected == actual
}

func fmtErr(err error) string {
	if err == nil {
		return "nil"
	}
	return fmt.Sprintf("%v", err)
}
