package drv

import (
	"errors"
	"fmt"
	"os"
	"path/filepath"
	"sort"
	"sync"
	"sync/atomic"
	"time"

	"github.com/ostafen/clover/v2/document"
	"github.com/ostafen/clover/v2/query"
	"verif/m"
)

// Result is everything observable from one public operation.
type Result struct {
	Err      error
	Class    string
	Panic    interface{}
	Docs     []m.Doc  // findAll / forEach (visited) / findFirst / findById (0 or 1)
	N        int      // count
	B        bool     // exists / hasCollection / hasIndex
	Names    []string // listCollections / listIndexes (fields)
	GenIDs   []string
	Affected []string // ids on which the update callback ran, in order
	PreVals  []string // Canon of the documents the callback received
	Calls    int      // forEach: consumer invocations
	Leak     string
}

func (r *Result) String() string {
	s := fmt.Sprintf("err=%s", fmtErr(r.Err))
	if r.Panic != nil {
		s += fmt.Sprintf(" PANIC=%v", r.Panic)
	}
	if r.Leak != "" {
		s += " LEAK=" + r.Leak
	}
	return s
}

// ErrConsumer is what an IterateDocs consumer of the harness returns to abort the iteration.
var ErrConsumer = errors.New("verif: consumer error")

func updaterFunc(u *m.Updater, res *Result) func(*document.Document) *document.Document {
	return func(doc *document.Document) *document.Document {
		res.Affected = append(res.Affected, doc.ObjectId())
		res.PreVals = append(res.PreVals, m.Canon(DocMap(doc)))
		if u.Nil {
			return nil
		}
		target := doc
		if u.Style != "inplace" && u.Style != "inplace-elems" {
			target = doc.Copy()
		}
		for _, k := range m.SortedKeys(u.Set) {
			if u.Style == "inplace-elems" && mutateInPlace(target.Get(k), u.Set[k]) {
				continue // the slice / object the document already holds was rewritten element by element
			}
			target.Set(k, m.Clone(u.Set[k]))
		}
		if u.BadFor != "" && doc.ObjectId() == u.BadFor {
			target.Set("_expiresAt", "not a time")
		}
		return target
	}
}

// mutateInPlace rewrites the elements of a slice (of the same length) or the entries of an object that the received
// document already holds, the way a caller does with doc.Get(f).([]interface{})[i] = v; false = shapes differ.
func mutateInPlace(cur, nv interface{}) bool {
	switch c := cur.(type) {
	case []interface{}:
		n, ok := nv.([]interface{})
		if !ok || len(n) != len(c) {
			return false
		}
		for i := range c {
			if !mutateInPlace(c[i], n[i]) {
				c[i] = m.Clone(n[i])
			}
		}
		return true
	case map[string]interface{}:
		n, ok := nv.(map[string]interface{})
		if !ok {
			return false
		}
		for k := range c {
			delete(c, k)
		}
		for k, v := range n {
			c[k] = m.Clone(v)
		}
		return true
	}
	return false
}

// ---- hang monitor: every operation in flight is registered, so that a call that never returns is reported
// (with the operation) instead of blocking the whole check silently ----

type inflightOp struct {
	In    *Inst
	Op    m.Op
	Start time.Time
}

var (
	inflight    sync.Map // call id -> *inflightOp
	inflightSeq int64
)

// ForgetInflight drops the registrations of an instance (threads parked for good after an aborted schedule).
func ForgetInflight(in *Inst) {
	inflight.Range(func(k, v interface{}) bool {
		if v.(*inflightOp).In == in {
			inflight.Delete(k)
		}
		return true
	})
}

// StartHangMonitor calls onHang once if some operation has been running for longer than limit.
func StartHangMonitor(limit time.Duration, onHang func(backend string, op m.Op, running time.Duration)) {
	go func() {
		for {
			time.Sleep(5 * time.Second)
			var hit *inflightOp
			inflight.Range(func(k, v interface{}) bool {
				if f := v.(*inflightOp); time.Since(f.Start) > limit {
					hit = f
					return false
				}
				return true
			})
			if hit != nil {
				onHang(hit.In.Backend, hit.Op, time.Since(hit.Start))
				return
			}
		}
	}()
}

// Exec runs one operation through the public API, recovering panics and checking for leaked transactions.
func Exec(in *Inst, o m.Op) (res *Result) {
	res = &Result{}
	db := in.DB
	callID := atomic.AddInt64(&inflightSeq, 1)
	inflight.Store(callID, &inflightOp{In: in, Op: o, Start: time.Now()})
	defer inflight.Delete(callID)
	defer func() {
		if p := recover(); p != nil {
			res.Panic = p
			res.Class = "panic"
		} else {
			res.Class = ErrClass(res.Err)
		}
		if otx, _, ocur := in.V.Leaks(); otx > 0 || ocur > 0 {
			res.Leak = fmt.Sprintf("%d transaction(s) and %d cursor(s) left open", otx, ocur)
		}
	}()
	switch o.K {
	case "createColl":
		res.Err = db.CreateCollection(o.Coll)
	case "dropColl":
		res.Err = db.DropCollection(o.Coll)
	case "hasColl":
		res.B, res.Err = db.HasCollection(o.Coll)
	case "listColls":
		res.Names, res.Err = db.ListCollections()
		sort.Strings(res.Names)
	case "createIndex":
		res.Err = db.CreateIndex(o.Coll, o.Field)
	case "dropIndex":
		res.Err = db.DropIndex(o.Coll, o.Field)
	case "hasIndex":
		res.B, res.Err = db.HasIndex(o.Coll, o.Field)
	case "listIndexes":
		infos, err := db.ListIndexes(o.Coll)
		res.Err = err
		for _, i := range infos {
			res.Names = append(res.Names, i.Field)
		}
		sort.Strings(res.Names)
	case "insert":
		docs := make([]*document.Document, len(o.Docs))
		for i, d := range o.Docs {
			docs[i] = Doc(d)
		}
		res.Err = db.Insert(o.Coll, docs...)
		for i, d := range o.Docs {
			if idv, has := d["_id"]; !has || idv == "" {
				res.GenIDs = append(res.GenIDs, docs[i].ObjectId())
			}
		}
	case "insertTwice":
		// the very same document object twice in one batch (with or without an _id of its own)
		doc := Doc(o.Docs[0])
		res.Err = db.Insert(o.Coll, doc, doc)
	case "insertOne":
		doc := Doc(o.Docs[0])
		id, err := db.InsertOne(o.Coll, doc)
		res.Err = err
		res.Names = []string{id}
		if idv, has := o.Docs[0]["_id"]; !has || idv == "" {
			res.GenIDs = append(res.GenIDs, doc.ObjectId())
		}
	case "iterateDocs":
		res.Err = db.IterateDocs(Query(o.Q), func(d *document.Document) error {
			res.Docs = append(res.Docs, DocMap(d))
			if o.Stop != 0 && len(res.Docs) == o.Stop {
				return ErrConsumer // the consumer's own error (not the stop signal) at its Stop-th call
			}
			return nil
		})
	case "save":
		doc := Doc(o.Docs[0])
		res.Err = db.Save(o.Coll, doc)
		if idv, has := o.Docs[0]["_id"]; !has || idv == "" {
			res.GenIDs = append(res.GenIDs, doc.ObjectId())
		}
	case "saveStruct":
		// Save given a struct (not a document): _id and v through clover tags
		type rec struct {
			Id string `clover:"_id,omitempty"`
			V  int64  `clover:"v"`
		}
		r := rec{}
		r.Id, _ = o.Docs[0]["_id"].(string)
		r.V, _ = o.Docs[0]["v"].(int64)
		res.Err = db.Save(o.Coll, &r)
	case "replaceById":
		res.Err = db.ReplaceById(o.Coll, o.Id, Doc(o.Docs[0]))
	case "updateById":
		res.Err = db.UpdateById(o.Coll, o.Id, updaterFunc(o.Upd, res))
	case "deleteById":
		res.Err = db.DeleteById(o.Coll, o.Id)
	case "update":
		res.Err = db.Update(Query(o.Q), m.Clone(map[string]interface{}(o.Set)).(map[string]interface{}))
	case "updateFunc":
		res.Err = db.UpdateFunc(Query(o.Q), updaterFunc(o.Upd, res))
	case "delete":
		res.Err = db.Delete(Query(o.Q))
	case "findAll":
		docs, err := db.FindAll(Query(o.Q))
		res.Err = err
		res.Docs = DocMaps(docs)
	case "count":
		res.N, res.Err = db.Count(Query(o.Q))
	case "exists":
		res.B, res.Err = db.Exists(Query(o.Q))
	case "findFirst":
		d, err := db.FindFirst(Query(o.Q))
		res.Err = err
		if d != nil {
			res.Docs = []m.Doc{DocMap(d)}
		}
	case "findById":
		d, err := db.FindById(o.Coll, o.Id)
		res.Err = err
		if d != nil {
			res.Docs = []m.Doc{DocMap(d)}
		}
	case "forEach":
		res.Err = db.ForEach(Query(o.Q), func(d *document.Document) bool {
			res.Calls++
			res.Docs = append(res.Docs, DocMap(d))
			return o.Stop == 0 || res.Calls < o.Stop
		})
	case "export":
		res.Err = db.ExportCollection(o.Coll, o.Text)
	case "import":
		path := o.Text
		res.Err = db.ImportCollection(o.Coll, path)
	case "createByQuery":
		res.Err = db.CreateCollectionByQuery(o.Coll, Query(o.Q))
	default:
		panic("drv.Exec: unknown op " + o.K)
	}
	return res
}

// FindAllMaps is a convenience used by oracles: FindAll with panic recovery.
func FindAllMaps(in *Inst, q *m.Q) (docs []m.Doc, err error, pan interface{}) {
	defer func() {
		if p := recover(); p != nil {
			pan = p
		}
	}()
	ds, err := in.DB.FindAll(Query(q))
	return DocMaps(ds), err, nil
}

func CountQ(in *Inst, q *query.Query) (n int, err error, pan interface{}) {
	defer func() {
		if p := recover(); p != nil {
			pan = p
		}
	}()
	n, err = in.DB.Count(q)
	return
}

// WriteTemp writes a file into the process scratch directory and returns its path.
func WriteTemp(name, content string) string {
	p := filepath.Join(NewScratchDir(), name)
	os.WriteFile(p, []byte(content), 0o644)
	return p
}
