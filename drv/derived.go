package drv

import (
	"fmt"
	"strings"

	"github.com/ostafen/clover/v2/document"
	"github.com/ostafen/clover/v2/query"
	"verif/m"
)

type qSnapshot struct {
	coll        string
	crit        query.Criteria
	deep        string
	skip, limit int
	sort        string
}

func snapQ(q *query.Query) qSnapshot {
	return qSnapshot{coll: q.Collection(), crit: q.Criteria(), deep: RenderCriteria(q.Criteria()), skip: q.GetSkip(), limit: q.GetLimit(), sort: fmt.Sprint(q.SortOptions())}
}

// critRenderer serialises a criteria tree completely: operators, fields and every operand with its Go type, so that a
// change anywhere inside the tree (for instance an operand list rewritten in place) is visible.
type critRenderer struct{}

func (critRenderer) VisitUnaryCriteria(c *query.UnaryCriteria) interface{} {
	if vals, ok := c.Value.([]interface{}); ok {
		parts := make([]string, len(vals))
		for i, v := range vals {
			parts[i] = fmt.Sprintf("%T:%v", v, v)
		}
		return fmt.Sprintf("(%d %q [%s])", c.OpType, c.Field, strings.Join(parts, " "))
	}
	if c.OpType == query.FunctionOp {
		return fmt.Sprintf("(%d func)", c.OpType)
	}
	return fmt.Sprintf("(%d %q %T:%v)", c.OpType, c.Field, c.Value, c.Value)
}
func (r critRenderer) VisitNotCriteria(c *query.NotCriteria) interface{} {
	return fmt.Sprintf("not%v", c.C.Accept(r))
}
func (r critRenderer) VisitBinaryCriteria(c *query.BinaryCriteria) interface{} {
	return fmt.Sprintf("(%v %d %v)", c.C1.Accept(r), c.OpType, c.C2.Accept(r))
}

// RenderCriteria returns the complete textual form of a criteria tree ("" for nil).
func RenderCriteria(c query.Criteria) (out string) {
	if c == nil {
		return ""
	}
	defer func() {
		if p := recover(); p != nil {
			out = fmt.Sprintf("unrenderable: %v", p)
		}
	}()
	return fmt.Sprint(c.Accept(critRenderer{}))
}

// Derived checks Count / Exists / FindFirst / ForEach (every stop position) against the implementation's own
// FindAll for one query, and that none of the calls alters the query object or the database (tag "derived").
func Derived(in *Inst, q *m.Q, checkState bool) (out []Finding, evals int) {
	add := func(format string, a ...interface{}) {
		out = append(out, fnd("derived", "%s: %s", q, fmt.Sprintf(format, a...)))
	}
	var before string
	if checkState {
		before = CanonState(in.Dump())
	}
	cq := Query(q)
	s0 := snapQ(cq)
	guard := func(what string, f func()) (ok bool) {
		defer func() {
			if p := recover(); p != nil {
				out = append(out, fnd("panic", "%s(%s) panicked: %v", what, q, p))
				ok = false
			}
			if otx, _, oc := in.V.Leaks(); otx > 0 || oc > 0 {
				out = append(out, fnd("leak", "%s(%s) left %d transaction(s) / %d cursor(s) open", what, q, otx, oc))
				in.V.ForgetLeaks()
			}
			if s := snapQ(cq); s != s0 {
				add("%s modified the query object it was given: %v -> %v", what, s0, s)
				s0 = s
			}
		}()
		f()
		return true
	}
	var all []m.Doc
	var allErr error
	if !guard("FindAll", func() {
		ds, err := in.DB.FindAll(cq)
		all, allErr = DocMaps(ds), err
	}) {
		return out, 1
	}
	evals++
	sorted := len(q.EffSort()) > 0
	same := func(a, b m.Doc) bool {
		if sorted { // ties of equal sort keys may legitimately come out in either order
			return m.OrderCanon(m.SortKey(a, q.EffSort())) == m.OrderCanon(m.SortKey(b, q.EffSort()))
		}
		return m.Equal(a, b)
	}
	guard("Count", func() {
		n, err := in.DB.Count(cq)
		evals++
		if (err == nil) != (allErr == nil) {
			add("Count error %v but FindAll error %v", err, allErr)
		} else if err == nil && n != len(all) {
			add("Count = %d but FindAll returned %d documents", n, len(all))
		}
	})
	if q.EffLimit() != 0 {
		guard("Exists", func() {
			b, err := in.DB.Exists(cq)
			evals++
			if (err == nil) != (allErr == nil) {
				add("Exists error %v but FindAll error %v", err, allErr)
			} else if err == nil && b != (len(all) > 0) {
				add("Exists = %v but FindAll returned %d documents", b, len(all))
			}
		})
		guard("FindFirst", func() {
			d, err := in.DB.FindFirst(cq)
			evals++
			if (err == nil) != (allErr == nil) {
				add("FindFirst error %v but FindAll error %v", err, allErr)
			} else if err == nil {
				if len(all) == 0 && d != nil {
					add("FindFirst returned %s but FindAll is empty", m.Canon(DocMap(d)))
				} else if len(all) > 0 && (d == nil || !same(DocMap(d), all[0])) {
					add("FindFirst = %s but FindAll[0] = %s", m.Canon(DocMap(d)), m.Canon(all[0]))
				}
			}
		})
	}
	if allErr == nil {
		for stop := 0; stop <= len(all)+1; stop++ {
			stop := stop
			guard("ForEach", func() {
				r := Exec(in, m.Op{K: "forEach", Q: q, Stop: stop})
				evals++
				if r.Panic != nil {
					panic(r.Panic)
				}
				want := len(all)
				if stop > 0 && stop < want {
					want = stop
				}
				if r.Err != nil {
					add("ForEach(stop after %d) returned error %v", stop, r.Err)
					return
				}
				if r.Calls != want {
					add("ForEach with a consumer that stops at its call #%d was called %d times, FindAll has %d documents", stop, r.Calls, len(all))
					return
				}
				for i := 0; i < want; i++ {
					if !same(r.Docs[i], all[i]) {
						add("ForEach visited %s at position %d, FindAll has %s", m.Canon(r.Docs[i]), i, m.Canon(all[i]))
						break
					}
				}
			})
		}
	}
	if checkState {
		if after := CanonState(in.Dump()); after != before {
			add("read-only calls changed the database")
		}
	}
	return out, evals
}

// BuilderImmutability: no query or criteria builder method may alter the object it is called on.
func BuilderImmutability() (out []Finding, evals int) {
	c1 := query.Field("x").Gt(1)
	c2 := query.Field("y").In("a", 2)
	render := func(c query.Criteria) string { return fmt.Sprintf("%#v", c) }
	base := query.NewQuery("a").Where(c1).Skip(2).Limit(5).Sort(query.SortOption{Field: "x", Direction: -1}, query.SortOption{Field: "y", Direction: 1})
	snap := func(q *query.Query) string {
		return fmt.Sprintf("%s|%p|%s|%d|%d|%v", q.Collection(), q.Criteria(), render(q.Criteria()), q.GetSkip(), q.GetLimit(), q.SortOptions())
	}
	s0, r1, r2 := snap(base), render(c1), render(c2)
	check := func(what string) {
		evals++
		if s := snap(base); s != s0 {
			out = append(out, fnd("derived", "%s modified the query it was called on: %s -> %s", what, s0, s))
			s0 = s
		}
		if render(c1) != r1 || render(c2) != r2 {
			out = append(out, fnd("derived", "%s modified a criteria operand", what))
			r1, r2 = render(c1), render(c2)
		}
	}
	opts := []query.SortOption{{Field: "z", Direction: 0}, {Field: "w", Direction: -3}}
	steps := map[string]func(){
		"Where": func() { base.Where(c2) }, "Skip": func() { base.Skip(7) }, "Skip(-1)": func() { base.Skip(-1) }, "Limit": func() { base.Limit(1) }, "Limit(-1)": func() { base.Limit(-1) },
		"Sort()": func() { base.Sort() }, "Sort(opts)": func() { base.Sort(opts...) }, "MatchFunc": func() { base.MatchFunc(func(*document.Document) bool { return true }) },
		"And": func() { c1.And(c2) }, "Or": func() { c1.Or(c2) }, "Not": func() { c1.Not(); c2.Not() }, "And.Not": func() { c1.And(c2).Not().Or(c1) },
		"chain": func() { base.Where(c1.And(c2)).Skip(1).Limit(2).Sort() },
	}
	for name, f := range steps {
		func() {
			defer func() {
				if p := recover(); p != nil {
					out = append(out, fnd("panic", "builder %s panicked: %v", name, p))
				}
			}()
			f()
		}()
		check(name)
	}
	// the option slice handed to Sort belongs to the caller: normalisation must not write into it
	if opts[0].Direction != 0 || opts[1].Direction != -3 {
		out = append(out, fnd("derived", "Sort modified the caller's option slice: %v", opts))
	}
	// derived queries are independent of each other
	q1 := base.Skip(1)
	q2 := q1.Limit(9)
	q3 := q1.Sort()
	if q1.GetLimit() != 5 || q2.GetSkip() != 1 || len(q1.SortOptions()) != 2 || len(q3.SortOptions()) != 1 || base.GetSkip() != 2 {
		out = append(out, fnd("derived", "queries derived from one another share state"))
	}
	return out, evals + 3
}
