package drv

import (
	"fmt"

	"github.com/ostafen/clover/v2/query"
	"verif/m"
)

type qSnapshot struct {
	coll        string
	crit        query.Criteria
	skip, limit int
	sort        string
}

func snapQ(q *query.Query) qSnapshot {
	return qSnapshot{coll: q.Collection(), crit: q.Criteria(), skip: q.GetSkip(), limit: q.GetLimit(), sort: fmt.Sprint(q.SortOptions())}
}

// Derived checks Count / Exists / FindFirst / ForEach (every stop position) against the implementation's own
// FindAll for one query, and that none of the calls alters the query object or the database (tag "derived").
func Derived(in *Inst, q *m.Q, checkState bool) (out []Finding, evals int) {
	add := func(format string, a ...interface{}) {
		out = append(out, fnd("derived", "%s: %s", q, fmt.Sprintf(format, a...)))
	}
	var before string
	if checkState {
		before = CanonState(in.Dump())
	}
	cq := Query(q)
	s0 := snapQ(cq)
	guard := func(what string, f func()) (ok bool) {
		defer func() {
			if p := recover(); p != nil {
				out = append(out, fnd("panic", "%s(%s) panicked: %v", what, q, p))
				ok = false
			}
			if otx, _, oc := in.V.Leaks(); otx > 0 || oc > 0 {
				out = append(out, fnd("leak", "%s(%s) left %d transaction(s) / %d cursor(s) open", what, q, otx, oc))
				in.V.ForgetLeaks()
			}
			if s := snapQ(cq); s != s0 {
				add("%s modified the query object it was given: %v -> %v", what, s0, s)
				s0 = s
			}
		}()
		f()
		return true
	}
	var all []m.Doc
	var allErr error
	if !guard("FindAll", func() {
		ds, err := in.DB.FindAll(cq)
		all, allErr = DocMaps(ds), err
	}) {
		return out, 1
	}
	evals++
	sorted := len(q.EffSort()) > 0
	same := func(a, b m.Doc) bool {
		if sorted { // ties of equal sort keys may legitimately come out in either order
			return m.OrderCanon(m.SortKey(a, q.EffSort())) == m.OrderCanon(m.SortKey(b, q.EffSort()))
		}
		return m.Equal(a, b)
	}
	guard("Count", func() {
		n, err := in.DB.Count(cq)
		evals++
		if (err == nil) != (allErr == nil) {
			add("Count error %v but FindAll error %v", err, allErr)
		} else if err == nil && n != len(all) {
			add("Count = %d but FindAll returned %d documents", n, len(all))
		}
	})
	if q.EffLimit() != 0 {
		guard("Exists", func() {
			b, err := in.DB.Exists(cq)
			evals++
			if (err == nil) != (allErr == nil) {
				add("Exists error %v but FindAll error %v", err, allErr)
			} else if err == nil && b != (len(all) > 0) {
				add("Exists = %v but FindAll returned %d documents", b, len(all))
			}
		})
		guard("FindFirst", func() {
			d, err := in.DB.FindFirst(cq)
			evals++
			if (err == nil) != (allErr == nil) {
				add("FindFirst error %v but FindAll error %v", err, allErr)
			} else if err == nil {
				if len(all) == 0 && d != nil {
					add("FindFirst returned %s but FindAll is empty", m.Canon(DocMap(d)))
				} else if len(all) > 0 && (d == nil || !same(DocMap(d), all[0])) {
					add("FindFirst = %s but FindAll[0] = %s", m.Canon(DocMap(d)), m.Canon(all[0]))
				}
			}
		})
	}
	if allErr == nil {
		for stop := 0; stop <= len(all)+1; stop++ {
			stop := stop
			guard("ForEach", func() {
				r := Exec(in, m.Op{K: "forEach", Q: q, Stop: stop})
				evals++
				if r.Panic != nil {
					panic(r.Panic)
				}
				want := len(all)
				if stop > 0 && stop < want {
					want = stop
				}
				if r.Err != nil {
					add("ForEach(stop after %d) returned error %v", stop, r.Err)
					return
				}
				if r.Calls != want {
					add("ForEach with a consumer that stops at its call #%d was called %d times, FindAll has %d documents", stop, r.Calls, len(all))
					return
				}
				for i := 0; i < want; i++ {
					if !same(r.Docs[i], all[i]) {
						add("ForEach visited %s at position %d, FindAll has %s", m.Canon(r.Docs[i]), i, m.Canon(all[i]))
						break
					}
				}
			})
		}
	}
	if checkState {
		if after := CanonState(in.Dump()); after != before {
			add("read-only calls changed the database")
		}
	}
	return out, evals
}
