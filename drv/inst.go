package drv

import (
	"fmt"
	"os"
	"path/filepath"
	"sync"
	"sync/atomic"
	"time"

	badgerdb "github.com/dgraph-io/badger/v4"
	clover "github.com/ostafen/clover/v2"
	"github.com/ostafen/clover/v2/store"
	badgerstore "github.com/ostafen/clover/v2/store/badger"
	bboltstore "github.com/ostafen/clover/v2/store/bbolt"
	"verif/vstore"
)

const (
	BBolt      = "bbolt"
	Badger     = "badger"     // in memory
	BadgerDisk = "badgerdisk" // on disk
)

var scratchRoot string
var scratchSeq int64
var scratchOnce sync.Once

// ScratchRoot returns (creating it once) the per-process scratch directory, on tmpfs when available.
func ScratchRoot() string {
	scratchOnce.Do(func() {
		base := "/dev/shm"
		if st, err := os.Stat(base); err != nil || !st.IsDir() {
			base = os.TempDir()
		}
		scratchRoot = filepath.Join(base, fmt.Sprintf("verif-%d", os.Getpid()))
		os.MkdirAll(scratchRoot, 0o755)
	})
	return scratchRoot
}

// Cleanup removes the scratch directory.
func Cleanup() {
	if scratchRoot != "" {
		os.RemoveAll(scratchRoot)
	}
}

func NewScratchDir() string {
	d := filepath.Join(ScratchRoot(), fmt.Sprintf("d%d", atomic.AddInt64(&scratchSeq, 1)))
	os.MkdirAll(d, 0o755)
	return d
}

func BadgerOptions(dir string) badgerdb.Options {
	o := badgerdb.DefaultOptions(dir).
		WithLoggingLevel(badgerdb.ERROR).
		WithMemTableSize(8 << 20).
		WithNumCompactors(2).
		WithBlockCacheSize(0).
		WithIndexCacheSize(0).
		WithCompression(0)
	if dir == "" {
		o = o.WithInMemory(true)
	} else {
		o = o.WithValueLogFileSize(1 << 20).WithValueThreshold(1 << 10) // on disk: values above 1 KiB go through the value log
	}
	return o
}

// OpenRaw opens the bundled adapter for a backend on dir ("" for in-memory badger).
func OpenRaw(backend, dir string) (store.Store, error) {
	switch backend {
	case BBolt:
		return bboltstore.Open(dir)
	case Badger:
		return badgerstore.OpenWithOptions(BadgerOptions(""))
	case BadgerDisk:
		return badgerstore.OpenWithOptions(BadgerOptions(dir))
	}
	return nil, fmt.Errorf("unknown backend %q", backend)
}

// Inst is one instrumented clover database over a real store.
type Inst struct {
	Backend string
	Dir     string
	Raw     store.Store
	V       *vstore.Store
	DB      *clover.DB
	Uses    int
	OnOpen  func(*Inst) // run on every replacement instance Fresh opens (e.g. pre-growing a bbolt file)
	// Birth: what the store of a brand-new database holds right after Open (nothing on the pinned tree; an
	// implementation is free to keep a record of its own there, e.g. a format version). "Empty" means this content:
	// Fresh(nil) restores it rather than wiping it, on the instance under test and on the rebuild scratch alike.
	Birth []vstore.KV
}

func Open(backend string) (*Inst, error) {
	dir := ""
	if backend != Badger {
		dir = NewScratchDir()
	}
	in, err := OpenAt(backend, dir)
	if err == nil {
		in.Birth, _ = vstore.Dump(in.Raw)
	}
	return in, err
}

func OpenAt(backend, dir string) (*Inst, error) {
	raw, err := OpenRaw(backend, dir)
	if err != nil {
		return nil, err
	}
	v := vstore.Wrap(raw)
	v.PoisonAfterTx = backend == BBolt
	db, err := clover.OpenWithStore(v)
	if err != nil {
		return nil, err
	}
	return &Inst{Backend: backend, Dir: dir, Raw: raw, V: v, DB: db}, nil
}

func MustOpen(backend string) *Inst {
	i, err := Open(backend)
	if err != nil {
		panic(err)
	}
	return i
}

// Close closes the database and removes its directory.
func (i *Inst) Close() {
	if i.DB != nil {
		if otx, _, _ := i.V.Leaks(); otx > 0 || i.V.Poisoned {
			i.Abandon() // closing a store with a leaked transaction blocks forever
			return
		}
		db := i.DB
		done := make(chan struct{})
		go func() { db.Close(); close(done) }()
		select {
		case <-done:
		case <-time.After(30 * time.Second):
			// wedged below the store interface; the hang itself is reported by the checks, here we only move on
		}
		i.DB = nil
	}
	if i.Dir != "" {
		os.RemoveAll(i.Dir)
	}
}

// Abandon drops an instance whose store may be wedged (leaked transaction) without closing it.
func (i *Inst) Abandon() {
	i.DB = nil
	if i.Dir != "" {
		os.RemoveAll(i.Dir)
	}
}

// Reopen closes and reopens the database on the same directory (no-op content-wise for in-memory badger,
// which cannot be reopened: it is left untouched and false is returned).
func (i *Inst) Reopen() (bool, error) {
	if i.Backend == Badger {
		return false, nil
	}
	if err := i.DB.Close(); err != nil {
		return true, err
	}
	raw, err := OpenRaw(i.Backend, i.Dir)
	if err != nil {
		return true, err
	}
	i.Raw = raw
	i.V = vstore.Wrap(raw)
	i.V.PoisonAfterTx = i.Backend == BBolt
	i.DB, err = clover.OpenWithStore(i.V)
	return true, err
}

// Fresh returns an instance with the given raw content: the same instance restored through the store
// interface, or a new one when the instance has been used many times (badger accumulates MVCC versions).
func (i *Inst) Fresh(kvs []vstore.KV) (*Inst, error) {
	i.Uses++
	limit := 100
	if i.Backend == BBolt {
		limit = 2000
	}
	if i.Uses > limit {
		i.Close()
		n, err := Open(i.Backend)
		if err != nil {
			return nil, err
		}
		n.OnOpen = i.OnOpen
		*i = *n
		if i.OnOpen != nil {
			i.OnOpen(i)
		}
	}
	i.V.Hook, i.V.PostHook, i.V.FailAt = nil, nil, nil
	if otx, _, _ := i.V.Leaks(); otx > 0 || i.V.Poisoned {
		// a leaked transaction would block Restore/Close forever (bbolt writer lock): abandon the instance
		i.Abandon()
		n, err := Open(i.Backend)
		if err != nil {
			return nil, err
		}
		n.OnOpen = i.OnOpen
		*i = *n
		if i.OnOpen != nil {
			i.OnOpen(i)
		}
	}
	i.V.ForgetLeaks()
	empty := kvs == nil
	if empty {
		kvs = i.Birth
	}
	if err := vstore.Restore(i.Raw, kvs); err != nil {
		// the instance may be poisoned (leaked transaction): replace it
		i.Close()
		n, err2 := Open(i.Backend)
		if err2 != nil {
			return nil, err2
		}
		n.OnOpen = i.OnOpen
		*i = *n
		if i.OnOpen != nil {
			i.OnOpen(i)
		}
		if empty {
			kvs = i.Birth
		}
		if err := vstore.Restore(i.Raw, kvs); err != nil {
			return nil, err
		}
	}
	i.V.ResetCounters()
	return i, nil
}

func (i *Inst) Dump() []vstore.KV {
	kvs, err := vstore.Dump(i.Raw)
	if err != nil {
		panic(fmt.Sprintf("dump failed: %v", err))
	}
	return kvs
}
