package drv

import (
	"errors"
	"fmt"
	"sort"
	"strings"
	"sync"
	"sync/atomic"

	badgerdb "github.com/dgraph-io/badger/v4"
	"github.com/ostafen/clover/v2/document"
	"verif/m"
	"verif/vstore"
)

// Finding is one disagreement between the implementation and an oracle. Tag says which oracle.
type Finding struct {
	Tag string
	Msg string
}

func (f Finding) String() string { return f.Tag + ": " + f.Msg }

func fnd(tag, format string, a ...interface{}) Finding {
	return Finding{Tag: tag, Msg: fmt.Sprintf(format, a...)}
}

// DecodeValue: a stored value that document.Decode accepts as a non-empty field map is a document.
func DecodeValue(v []byte) (m.Doc, bool) {
	if len(v) == 0 {
		return nil, false
	}
	var d *document.Document
	var err error
	func() {
		defer func() {
			if recover() != nil {
				err = fmt.Errorf("panic")
			}
		}()
		d, err = document.Decode(v)
	}()
	if err != nil || d == nil {
		return nil, false
	}
	return d.ToMap(), true
}

// CanonState: canonical text of a raw dump. Values that decode as documents are replaced by their canonical
// typed form (stored msgpack bytes depend on Go map order); everything else is kept as raw bytes.
func CanonState(kvs []vstore.KV) string {
	var sb strings.Builder
	for _, kv := range kvs {
		fmt.Fprintf(&sb, "%q=", kv.K)
		if d, ok := DecodeValue(kv.V); ok {
			sb.WriteString(m.Canon(d))
		} else {
			fmt.Fprintf(&sb, "%q", kv.V)
		}
		sb.WriteByte('\n')
	}
	return sb.String()
}

// ---- canonical rebuild ----

type rebuilt struct {
	keys []string
	docs map[string]string // key -> Canon(doc) for values that are documents
	err  string
}

var rebuildCache sync.Map   // backend + model key -> *rebuilt
var rebuildCacheBytes int64 // approximate; the cache stops growing at rebuildCacheLimit

const rebuildCacheLimit = 1 << 30

// Rebuild builds a fresh database holding the model's logical state with the implementation itself
// (create collections, create indexes on the empty collections, insert the documents) and returns its keys.
func Rebuild(scratch *Inst, model *m.DB) *rebuilt {
	ck := scratch.Backend + "\x00" + model.Key()
	if r, ok := rebuildCache.Load(ck); ok {
		return r.(*rebuilt)
	}
	r := &rebuilt{docs: map[string]string{}}
	func() {
		defer func() {
			if p := recover(); p != nil {
				r.err = fmt.Sprintf("panic while rebuilding: %v", p)
			}
		}()
		if _, err := scratch.Fresh(nil); err != nil {
			r.err = err.Error()
			return
		}
		for _, name := range model.CollNames() {
			c := model.Colls[name]
			if err := scratch.DB.CreateCollection(name); err != nil {
				r.err = fmt.Sprintf("rebuild CreateCollection(%q): %v", name, err)
				return
			}
			for _, f := range c.IndexNames() {
				if err := scratch.DB.CreateIndex(name, f); err != nil {
					r.err = fmt.Sprintf("rebuild CreateIndex(%q,%q): %v", name, f, err)
					return
				}
			}
			docs := []*document.Document{}
			for _, id := range c.IDs() {
				docs = append(docs, Doc(c.Docs[id]))
			}
			if len(docs) > 0 {
				if err := scratch.DB.Insert(name, docs...); err != nil {
					r.err = fmt.Sprintf("rebuild Insert(%q): %v", name, err)
					return
				}
			}
		}
		for _, kv := range scratch.Dump() {
			r.keys = append(r.keys, string(kv.K))
			if d, ok := DecodeValue(kv.V); ok {
				r.docs[string(kv.K)] = m.Canon(d)
			}
		}
	}()
	// only small states are worth remembering (state-space searches revisit them constantly); the rebuild of a
	// collection of thousands of documents is megabytes and is never asked for twice
	if size := int64(len(ck)) * 3; len(ck) <= 16<<10 && atomic.LoadInt64(&rebuildCacheBytes)+size < rebuildCacheLimit {
		atomic.AddInt64(&rebuildCacheBytes, size)
		rebuildCache.Store(ck, r)
	}
	return r
}

// AuditRaw compares the raw key space of the database with the canonical rebuild of the model state.
// No knowledge of the key layout is used: only "same key set" and "same decoded documents".
func AuditRaw(in *Inst, scratch *Inst, model *m.DB) []Finding {
	r := Rebuild(scratch, model)
	if r.err != "" {
		return []Finding{fnd("rebuild", "%s", r.err)}
	}
	out := []Finding{}
	have := map[string]bool{}
	for _, kv := range in.Dump() {
		k := string(kv.K)
		have[k] = true
		i := sort.SearchStrings(r.keys, k)
		if i >= len(r.keys) || r.keys[i] != k {
			out = append(out, fnd("rawkeys", "residue: key %q is stored but a database freshly built with the same content does not have it", k))
			continue
		}
		d, isDoc := DecodeValue(kv.V)
		want, wantDoc := r.docs[k]
		if isDoc != wantDoc || (isDoc && m.Canon(d) != want) {
			out = append(out, fnd("rawkeys", "value under key %q is %s, the rebuild has %s", k, m.Canon(d), want))
		}
	}
	for _, k := range r.keys {
		if !have[k] {
			out = append(out, fnd("rawkeys", "missing: key %q exists in a database freshly built with the same content but not here", k))
		}
	}
	return out
}

// ---- API-level audit ----

func sameStrings(a, b []string) bool {
	if len(a) != len(b) {
		return false
	}
	for i := range a {
		if a[i] != b[i] {
			return false
		}
	}
	return true
}

// AuditOpts selects optional (more expensive) parts.
type AuditOpts struct {
	Names  []string // collection names whose HasCollection answer is checked (beyond the model's)
	Fields []string // field names whose HasIndex answer is checked
	Probes []*m.Q   // probe queries compared with the model (tag "find")
}

// AuditAPI compares everything the public read API reports with the model state.
func AuditAPI(in *Inst, model *m.DB, opt AuditOpts) []Finding {
	out := []Finding{}
	add := func(f Finding) { out = append(out, f) }
	bad := func(tag, what string, r *Result) bool {
		if r.Panic != nil {
			add(fnd("panic", "%s panicked: %v", what, r.Panic))
			return true
		}
		if r.Leak != "" {
			add(fnd("leak", "%s: %s", what, r.Leak))
			in.V.ForgetLeaks()
		}
		if r.Err != nil {
			add(fnd(tag, "%s failed: %v", what, r.Err))
			return true
		}
		return false
	}
	r := Exec(in, m.Op{K: "listColls"})
	if !bad("catalog-coll", "ListCollections", r) && !sameStrings(r.Names, model.CollNames()) {
		add(fnd("catalog-coll", "ListCollections = %q, expected %q", r.Names, model.CollNames()))
	}
	names := map[string]bool{}
	for _, n := range opt.Names {
		names[n] = true
	}
	for n := range model.Colls {
		names[n] = true
	}
	for n := range names {
		r := Exec(in, m.Op{K: "hasColl", Coll: n})
		if !bad("catalog-coll", fmt.Sprintf("HasCollection(%q)", n), r) && r.B != (model.Colls[n] != nil) {
			add(fnd("catalog-coll", "HasCollection(%q) = %v, expected %v", n, r.B, model.Colls[n] != nil))
		}
	}
	for _, name := range model.CollNames() {
		c := model.Colls[name]
		all := &m.Q{Coll: name}
		r := Exec(in, m.Op{K: "findAll", Q: all})
		if !bad("state", fmt.Sprintf("FindAll(%q)", name), r) {
			if err := model.CheckFind(all, r.Docs); err != nil {
				add(fnd("state", "collection %q: %v", name, err))
			}
		}
		r = Exec(in, m.Op{K: "count", Q: all})
		if !bad("count", fmt.Sprintf("Count(%q)", name), r) && r.N != len(c.Docs) {
			add(fnd("count", "Count(%q) = %d but the collection holds %d documents", name, r.N, len(c.Docs)))
		}
		r = Exec(in, m.Op{K: "listIndexes", Coll: name})
		if !bad("catalog-index", fmt.Sprintf("ListIndexes(%q)", name), r) && !sameStrings(r.Names, c.IndexNames()) {
			add(fnd("catalog-index", "ListIndexes(%q) = %q, expected %q", name, r.Names, c.IndexNames()))
		}
		fields := map[string]bool{}
		for _, f := range opt.Fields {
			fields[f] = true
		}
		for f := range c.Indexes {
			fields[f] = true
		}
		for f := range fields {
			r := Exec(in, m.Op{K: "hasIndex", Coll: name, Field: f})
			if !bad("catalog-index", fmt.Sprintf("HasIndex(%q,%q)", name, f), r) && r.B != c.Indexes[f] {
				add(fnd("catalog-index", "HasIndex(%q,%q) = %v, expected %v", name, f, r.B, c.Indexes[f]))
			}
		}
		// every index must answer like a scan: a sort-only query walks the whole index
		for _, f := range c.IndexNames() {
			for _, dir := range []int{1, -1} {
				q := &m.Q{Coll: name, Sort: []m.SortOpt{{Field: f, Dir: dir}}}
				r := Exec(in, m.Op{K: "findAll", Q: q})
				if !bad("indexquery", "FindAll("+q.String()+")", r) {
					if err := model.CheckFind(q, r.Docs); err != nil {
						add(fnd("indexquery", "%s: %v", q, err))
					}
				}
			}
		}
		for _, id := range c.IDs() {
			r := Exec(in, m.Op{K: "findById", Coll: name, Id: id})
			if !bad("id", fmt.Sprintf("FindById(%q,%s)", name, id), r) {
				if len(r.Docs) != 1 {
					add(fnd("id", "FindById(%q,%s) returned nothing for a live document", name, id))
				} else if got, _ := r.Docs[0]["_id"].(string); got != id {
					add(fnd("id", "FindById(%q,%s) returned a document whose _id is %q", name, id, got))
				} else if !m.Equal(r.Docs[0], c.Docs[id]) {
					add(fnd("state", "FindById(%q,%s) = %s, last written %s", name, id, m.Canon(r.Docs[0]), m.Canon(c.Docs[id])))
				}
			}
		}
	}
	// an id that is live only in another collection must not be found here
	allIDs := map[string]bool{}
	for _, c := range model.Colls {
		for id := range c.Docs {
			allIDs[id] = true
		}
	}
	for _, name := range model.CollNames() {
		c := model.Colls[name]
		for id := range allIDs {
			if c.Docs[id] != nil {
				continue
			}
			r := Exec(in, m.Op{K: "findById", Coll: name, Id: id})
			if !bad("id", fmt.Sprintf("FindById(%q,%s)", name, id), r) && len(r.Docs) != 0 {
				add(fnd("id", "FindById(%q,%s) returned %s although the collection holds no such document", name, id, m.Canon(r.Docs[0])))
			}
		}
	}
	for _, q := range opt.Probes {
		if model.Colls[q.Coll] == nil {
			continue
		}
		r := Exec(in, m.Op{K: "findAll", Q: q})
		if !bad("find", "FindAll("+q.String()+")", r) {
			if err := model.CheckFind(q, r.Docs); err != nil {
				add(fnd("find", "%s: %v", q, err))
			}
		}
	}
	return out
}

// StoreRefused: the store rejected the whole transaction for a reason of its own (size limit).
func StoreRefused(err error) bool {
	return err != nil && errors.Is(err, badgerdb.ErrTxnTooBig)
}

// Step executes one write/catalog operation on the implementation and on the model.
// It returns the result, the model state adopted, and the findings about the operation's own outcome.
func Step(in *Inst, model *m.DB, o m.Op) (*Result, *m.DB, []Finding) {
	out := []Finding{}
	// pre-state ids of the target collection for windowed map-updates / deletes (affected set by diff)
	var pre map[string]string
	needDiff := (o.K == "update" || o.K == "delete") && o.Q != nil && (o.Q.EffSkip() > 0 || o.Q.EffLimit() >= 0)
	if needDiff && model.Colls[o.Q.Coll] != nil {
		pre = map[string]string{}
		docs, _, _ := FindAllMaps(in, &m.Q{Coll: o.Q.Coll})
		for _, d := range docs {
			id, _ := d["_id"].(string)
			pre[id] = m.Canon(d)
		}
	}
	res := Exec(in, o)
	if res.Panic != nil {
		out = append(out, fnd("panic", "%s panicked: %v", o, res.Panic))
	}
	if res.Leak != "" {
		out = append(out, fnd("leak", "%s: %s", o, res.Leak))
	}
	if res.Panic != nil {
		return res, model, out
	}
	if StoreRefused(res.Err) {
		// the store refused the transaction as a whole (badger's per-transaction size limit): a legal outcome of any
		// write, provided nothing was applied - the caller's audits run against the unchanged model state
		return res, model, out
	}
	obs := &m.Obs{GenIDs: res.GenIDs, Affected: res.Affected}
	if pre != nil && res.Err == nil {
		docs, _, _ := FindAllMaps(in, &m.Q{Coll: o.Q.Coll})
		post := map[string]string{}
		for _, d := range docs {
			id, _ := d["_id"].(string)
			post[id] = m.Canon(d)
		}
		for id, c := range pre {
			if pc, ok := post[id]; !ok || pc != c {
				obs.Affected = append(obs.Affected, id)
			}
		}
	}
	if res.Err != nil && len(res.GenIDs) > 0 {
		// ids were generated before the failure; give the model valid placeholders it will not keep
		for i := range obs.GenIDs {
			if !m.ValidID(obs.GenIDs[i]) {
				obs.GenIDs[i] = fmt.Sprintf("00000000-0000-4000-8000-%012d", i)
			}
		}
	}
	outs, err := model.Apply(o, obs)
	if err != nil {
		out = append(out, fnd("apply", "%s: %v", o, err))
		return res, model, out
	}
	for _, oc := range outs {
		if ClassMatches(oc.Err, res.Class) {
			if o.K == "insertOne" && res.Err == nil {
				// the returned id must be the _id under which the document is now stored
				want, _ := o.Docs[0]["_id"].(string)
				if want == "" && len(res.GenIDs) > 0 {
					want = res.GenIDs[0]
				}
				if len(res.Names) != 1 || res.Names[0] != want || oc.State.Colls[o.Coll].Docs[want] == nil {
					out = append(out, fnd("id", "InsertOne returned id %q, the document is stored under %q", res.Names, want))
				}
			}
			return res, oc.State, out
		}
	}
	want := []string{}
	for _, oc := range outs {
		c := oc.Err
		if c == "" {
			c = "success"
		}
		want = append(want, c)
	}
	out = append(out, fnd("err", "%s returned %s, expected %s", o, fmtErr(res.Err), strings.Join(want, " or ")))
	// adopt the first outcome whose success/failure status matches, so that later checks stay meaningful
	for _, oc := range outs {
		if (oc.Err == "") == (res.Err == nil) {
			return res, oc.State, out
		}
	}
	return res, outs[0].State, out
}
