#!/bin/bash
# usage: check.sh <property-id> [quick|thorough]
# Rebuilds bin/verif from /verif and /repo's current working tree (hooks enabled: build tag "verif"), then runs the check.
cd "$(dirname "$0")" || exit 2
export GOFLAGS=-mod=mod GOPROXY=off GOSUMDB=off GOTOOLCHAIN=local
export VERIF_ROOT="$(pwd)"
mkdir -p bin
if ! go build -tags verif -o bin/verif ./cmd/verif 2> bin/build.log; then
  echo "check.sh: build failed (harness error)"; cat bin/build.log; exit 2
fi
if [ "$1" = "C07" ]; then
  # the free-running data-race pass of C07 needs the race-detector build of the same sources
  go build -race -tags verif -o bin/verif-race ./cmd/verif 2>> bin/build.log || rm -f bin/verif-race
fi
mkdir -p replays
log="replays/$1-run.log"
./bin/verif check "$1" "${2:-${VERIF_TIER:-quick}}" 2> "$log.err" | tee "$log"
code=${PIPESTATUS[0]}
if [ "$code" != "0" ] && [ "$code" != "1" ]; then
  # the checker process itself died (Go fatal error / unrecovered panic / killed) while exercising the library:
  # that is reported as a violation, with the crash output as the artefact - it is never silently dropped
  tail -c 20000 "$log.err" > "replays/$1-crash.log"
  echo "check.sh: bin/verif ended with status $code; last lines of its error output:"
  tail -n 15 "$log.err"
  echo "VIOLATION property=$1 replay=$(pwd)/replays/$1-crash.log"
  exit 1
fi
cat "$log.err" >&2
exit "$code"
