#!/usr/bin/env python3
"""Generates MANIFEST.json from the table below (kept next to the checks so that the two do not drift)."""
import json, subprocess

hooks_commits = []  # filled when hook commits exist

CHECKS = {
 # id: (level, technique, level text, level note)
 "C01": ("model_checking", "exhaustive criteria sweep + explicit-state BFS of the real DB against a reference model",
         "every criteria tree of a bounded alphabet on every index twin, and probe queries in every reachable state of a value-rich write alphabet, compared with an independent reference model",
         "reference model m/ written from the property statements; bounded alphabets (DESIGN 4/C01)"),
 "C02": ("model_checking", "exhaustive criteria x sort x window sweep over index-twin collections of the real DB",
         "the same documents in twin collections differing only in indexes (9 index sets, 4 creation orders): FindAll/Count/Update/UpdateFunc/Delete must select the same documents / sort-key sequence as the unindexed twin",
         "the unindexed twin is the oracle; alphabets bounded (DESIGN 4/C02)"),
 "C03": ("exploration", "exhaustive sweep of every collection size x index set x bulk operation x backend",
         "every size from 0 to the bound (plus sizes just beyond batching thresholds and large padded documents), four index sets incl. nested and optional fields, 25 bulk operations and the full sort x skip x limit grid; callback log and post-state compared with FindAll-before and the reference model",
         "sizes above the bound only at a few listed values"),
 "C04": ("fault_enumeration", "exhaustive enumeration of every failing store call of every operation on the real stores + erroring transitions of the state-space search",
         "for every operation, pre-state and backend, every position k of a failing begin/get/set/delete/cursor-read/commit: error reported, raw content unchanged, nothing leaked, re-run behaves as the model says",
         "single faults per run; failures are injected by a store wrapper above the real adapters; operations with hundreds of store calls have thinned fault positions"),
 "C05": ("fault_enumeration", "exhaustive enumeration of crash points (file image at every store call; SIGKILL of a child at every store call) over all short write histories, then reopen",
         "every store call of every history up to the bound is a crash point; the reopened database must equal the acknowledged prefix or that plus the operation in flight, with intact indexes/counts/catalog and a raw key set equal to a canonical rebuild",
         "process death, not power loss; crash points are store-call boundaries (bbolt's internal page-write order is bbolt's contract)"),
 "C06": ("model_checking", "explicit-state BFS of the real DB to a fixpoint, raw key-space audit against a canonical rebuild",
         "all reachable states of three alphabets; in each the raw key set equals that of a database freshly built with the same logical content, Count equals the number of documents, every index answers like a scan",
         "states are raw store contents (DESIGN 3.5); layout-agnostic audit (DESIGN 3.5a)"),
 "C07": ("model_checking", "stateless exploration of every schedule of the real DB under a cooperative scheduler (preemption-bounded DFS) + linearizability check (porcupine)",
         "every interleaving of 2-3 goroutines in 18 colliding scenarios on both backends at operation/commit granularity (unbounded), at every store call with <= 2 preemptions (thorough); each history must be linearizable w.r.t. the reference model and leave a consistent raw state",
         "isolation of uncommitted work by the stores justifies the reduced point set (defended by the every-call mode); data races are left to a separate sampling -race pass; the badger+index write skew is a recorded known finding"),
 "C08": ("exploration", "exhaustive sort-option x skip/limit grid on index twins of the real DB against the reference order",
         "every sort list / direction / window / criteria combination of the grid: returned sort-key tuples equal the reference window",
         "13-document dataset; tie order among equal keys is not compared"),
 "C09": ("model_checking", "explicit-state BFS of the real DB; relational oracle (the implementation's own FindAll)",
         "in every reachable state, for a battery of queries, Count/Exists/FindFirst/ForEach(every stop position)/FindById agree with FindAll and leave query objects and the database untouched",
         "query battery of 12 shapes"),
 "C10": ("exploration", "exhaustive pairs and triples of a boundary value set through the public comparison and index-key APIs",
         "every ordered pair (sign vs documented order, key byte order) and every triple (order laws on clover's own signs) of an 80-value boundary set",
         "values outside the set are not covered"),
 "C11": ("exploration", "exhaustive document grammar to depth 3 written and read back through the real DB on every backend",
         "every value of the grammar at three placements survives Insert/FindById/FindAll/reopen/ReplaceById/Update with identical Go types and values",
         "grammar depth 3; 28 leaves"),
 "C12": ("model_checking", "explicit-state BFS of the real DB to a fixpoint over an _id-focused alphabet",
         "invariant FindById(c,id)._id == id and contents == reference model in every reachable state; duplicate/malformed ids rejected without change",
         "two collections, three ids"),
 "C13": ("model_checking", "explicit-state BFS of the real DB over collection-name alphabets",
         "catalog, sentinel errors and isolation (API and raw key space) in every reachable state; fixpoint for 3 prefix-related names, depth-bounded for 7 names",
         "names free of ';'"),
 "C14": ("model_checking", "explicit-state BFS of the real DB to a fixpoint over index operations on prefix/dotted field pairs",
         "index catalog, sentinel errors, 48 probe queries per state and raw key audit in every reachable state",
         "fields x, xy, n, n.a"),
 "C15": ("model_checking", "lock-step BFS twins on bbolt and badger + exhaustive store-level cursor sweep",
         "every transition executed on both backends from the same state with equal results and stored content; every key subset x in-transaction change x seek target x direction at the store adapters",
         "badger with small-memtable options; empty seek target excluded for reverse cursors"),
 "C16": ("exploration", "exhaustive criteria trees x documents through FindAll and Satisfy against the documented semantics",
         "every tree up to the bound on 48 typed documents; Boolean laws checked directly; every numeric literal in all Go numeric kinds",
         "depth 2 over 8 leaves, depth 1 over 52"),
 "C17": ("exploration", "exhaustive index contents x ranges x directions x stop positions on the real stores",
         "every multiset of entries up to the bound, every range over 11 bounds with both flags, both directions, every stop position, on bbolt and badger; Intersect/IsEmpty for every pair of ranges",
         "open end = nil bound with flag off"),
 "C19": ("exploration", "exhaustive small collections over a JSON grammar through ExportCollection/ImportCollection on the real DB",
         "every collection of up to 2 (thorough: 3) documents of the grammar, with and without indexes; 16 failure modes",
         "quick tier thins 3-document collections to every 7th"),
 "C20": ("model_checking", "hostile exhaustive sweep of every public operation x situation x criteria shape, plus recover/leak checks on every transition of the state-space searches",
         "no call panics or returns with a transaction/cursor open (what makes a later write block forever); closed handles included; 60 s watchdog per call",
         "callbacks that call back into clover are outside the property"),
 "C18": ("exploration", "exhaustive typed Go-value grammar through Document.Set/NewDocumentOf against a reference normaliser",
         "every value of the typed grammar, every pair of dotted-path assignments, struct round trips",
         "[]uint8 pass-through is a recorded known finding"),
}

def main():
    checks = []
    for pid in sorted(CHECKS):
        level, tech, text, note = CHECKS[pid]
        checks.append({
            "property_id": pid,
            "quick_cmd": f"./check.sh {pid} quick",
            "thorough_cmd": f"./check.sh {pid} thorough",
            "evidence_file": f"/verif/evidence/{pid}.json",
            "replay_cmd_template": "./bin/verif replay {path}",
            "engine": "bin/verif",
            "level_claimed": {"category": level, "text": text, "design_ref": f"DESIGN.md section 4, {pid}"},
            "level_note": note,
            "technique": tech,
        })
    props = [json.loads(l)["id"] for l in open("/verif/properties.jsonl")]
    na = [{"property_id": p, "reason": "check under construction in this session (engine designed in DESIGN.md, not yet registered)"} for p in props if p not in CHECKS]
    man = {
        "version": 1,
        "setup_cmd": "./setup.sh",
        "hooks": {"guard": "verif", "enable": "go build -tags verif (check.sh); no hook file is currently needed: all instrumentation is a store.Store wrapper passed to clover.OpenWithStore",
                  "baseline_off_cmd": "./baseline.sh", "source_commits": hooks_commits, "add_only": True},
        "engines": [
            {"name": "querysweep", "path": "eng/querysweep.go", "serves_properties": ["C01", "C02", "C08"], "kind_free_text": "exhaustive criteria x sort x window x index-twin sweep on the real DB"},
            {"name": "statespace", "path": "eng/statespace.go", "serves_properties": ["C01", "C06", "C09", "C12", "C13", "C14", "C15"], "kind_free_text": "explicit-state breadth-first search over the real DB with raw-state de-duplication and lock-step backend twins"},
            {"name": "bulksweep", "path": "eng/bulksweep.go", "serves_properties": ["C03"], "kind_free_text": "every collection size x index set x bulk op"},
            {"name": "sched", "path": "eng/sched.go", "serves_properties": ["C07"], "kind_free_text": "cooperative scheduler over store calls, DFS over choice sequences with preemption bound, porcupine linearizability oracle"},
            {"name": "crashenum", "path": "eng/crashenum.go", "serves_properties": ["C05"], "kind_free_text": "every store call as a crash point: bbolt file images and real SIGKILLs of a child process, then reopen and audit"},
            {"name": "faultenum", "path": "eng/faultenum.go", "serves_properties": ["C04"], "kind_free_text": "every k-th store call failing, per operation x pre-state x backend"},
            {"name": "hostile", "path": "eng/hostile.go", "serves_properties": ["C20"], "kind_free_text": "every public call x situation x hostile criteria"},
            {"name": "jsonsweep", "path": "eng/jsonsweep.go", "serves_properties": ["C19"], "kind_free_text": "all small collections over a JSON grammar through export/import"},
            {"name": "valuesweep/critsweep/normsweep/roundtrip/rangesweep", "path": "eng/", "serves_properties": ["C10", "C11", "C15", "C16", "C17", "C18"], "kind_free_text": "plain exhaustive enumerations of bounded value/criteria/range/key-set spaces"},
        ],
        "checks": checks,
        "not_applicable": na,
        "notes": "All checks explore the real implementation exhaustively within stated bounds; see DESIGN.md. known_findings.json lists recorded and repaired defects.",
    }
    json.dump(man, open("/verif/MANIFEST.json", "w"), indent=1)
    print("MANIFEST.json:", len(checks), "checks,", len(na), "not applicable")

main()
